// Package c16 decides property C16: untrusted bytes are decoded or rejected, never crash the node.
//
// Every decode / verify entry point is a *target*: one function taking the untrusted bytes, with the
// whole oracle inside (engine.check): no panic, returns within 10 s, allocates < 1 GiB, accepted
// inputs re-encode / decode consistently, and a fixed known-good input still gives the identical
// result afterwards. The same targets are driven by rapid (structured mutation, quick tier) and by
// native Go fuzzing (FuzzC16*, thorough tier).
package c16

import (
	"crypto/sha256"
	"encoding/hex"
	"fmt"
	"os"
	"path/filepath"
	"runtime"
	"runtime/debug"
	"strings"
	"sync"
	"time"

	"pgregory.net/rapid"

	"verifharness/ev"
	"verifharness/mut"
)

const (
	maxInput   = 64 << 10
	timeLimit  = 10 * time.Second
	allocLimit = uint64(1) << 30
	reruns     = 3
)

// outcome is what a target reports about one input.
type outcome struct {
	// depth is the per-target depth marker: 0 = rejected by the outer decoder; >= 1 = the outer
	// decoder accepted and nested decode / verification was reached (meaning per target in doc).
	depth int
	// digest is a stable summary of the result (error text or hash of the decoded value); the
	// state check compares the digest of the known-good input with the reference.
	digest string
	// rt is a non-empty description of a round-trip inconsistency of an accepted input; rtSig
	// optionally replaces the default signature "roundtrip-<target>" by the one of a precise class.
	rt, rtSig string
	// excluded is set by check when the input only shows an excluded known finding.
	excluded string
	// viol is a target-specific violation: signature suffix and message.
	violSig, violMsg string
	// note carries extra information for the violation message (e.g. the envelope built around the input).
	note string
}

type seed struct {
	name string
	data []byte
}

// target is one decode / verify entry point together with its corpus.
type target struct {
	name  string
	doc   string // what depth 1, 2, 3 mean
	seeds []seed // valid encodings (accepted, depth >= wantDepth)
	// wantDepth is the depth every valid seed must reach (harness self check).
	wantDepth int
	run       func(in []byte) outcome
	// hot returns offsets of length / type fields of a seed (optional).
	hot func(in []byte) []int
	// seq: the input is a CBOR sequence rather than one item.
	seq bool
	// cborPercent overrides the share of CBOR-aware mutations (binary formats use -1).
	cborPercent int
	// hostile: also feed the hostile CBOR constants unmutated.
	hostile bool
	// skip reports a known-finding signature whose precondition the input satisfies (optional).
	skip func(in []byte) string
	// weight is the relative frequency of the target within its group (default 3).
	weight int
	// extra are further corpus entries that need not be accepted (hostile but interesting shapes).
	extra []seed
	// gen is an optional structure-aware generator (used for half of the generated inputs).
	gen func(t *rapid.T) (in []byte, seedName string, kinds []string)

	good       []byte
	goodDigest string
	others     [][]byte
}

type guardResult struct {
	out      outcome
	panicVal any
	stack    string
	dur      time.Duration
	alloc    uint64
	timedOut bool
}

// guarded executes the target on its own goroutine with panic recovery, a watchdog and an
// allocation measurement.
func guarded(tg *target, in []byte) guardResult {
	var m0, m1 runtime.MemStats
	runtime.ReadMemStats(&m0)
	done := make(chan guardResult, 1)
	start := time.Now()
	go func() {
		var r guardResult
		defer func() {
			if p := recover(); p != nil {
				r.panicVal = p
				r.stack = string(debug.Stack())
			}
			done <- r
		}()
		r.out = tg.run(in)
	}()
	timer := time.NewTimer(timeLimit)
	var r guardResult
	select {
	case r = <-done:
		timer.Stop()
	case <-timer.C:
		r.timedOut = true
	}
	r.dur = time.Since(start)
	runtime.ReadMemStats(&m1)
	r.alloc = m1.TotalAlloc - m0.TotalAlloc
	return r
}

type failer interface {
	Fatalf(format string, args ...any)
}

// current describes the case being evaluated (for ev.Trace and violation messages).
type caseInfo struct {
	Target string   `json:"target"`
	Seed   string   `json:"seed,omitempty"`
	Kinds  []string `json:"mutations,omitempty"`
	Len    int      `json:"len"`
	SHA256 string   `json:"sha256"`
	Hex    string   `json:"input_hex"`
	Note   string   `json:"note,omitempty"`
}

var (
	curMu sync.Mutex
	cur   *caseInfo
)

func init() {
	ev.Trace = func() any {
		curMu.Lock()
		defer curMu.Unlock()
		return cur
	}
}

func describe(tg *target, in []byte, seedName string, kinds []string, note string) string {
	sum := sha256.Sum256(in)
	ci := &caseInfo{Target: tg.name, Seed: seedName, Kinds: kinds, Len: len(in), SHA256: hex.EncodeToString(sum[:8]), Hex: hex.EncodeToString(in), Note: note}
	curMu.Lock()
	cur = ci
	curMu.Unlock()
	h := ci.Hex
	where := ""
	if len(in) > 2048 {
		h = h[:4096] + "..."
		where = " (complete input_hex in the .trace.json saved next to the replay file)"
		if dir := os.Getenv("VERIF_WORK"); dir != "" && os.Getenv("VERIF_KEEP_WORK") != "" {
			p := filepath.Join(dir, fmt.Sprintf("c16-input-%s-%s.bin", tg.name, ci.SHA256))
			if os.WriteFile(p, in, 0o644) == nil {
				where += " and in " + p
			}
		}
	}
	s := fmt.Sprintf("target=%s seed=%q mutations=%v len=%d sha256=%s input=%s%s", tg.name, seedName, kinds, len(in), ci.SHA256, h, where)
	if note != "" {
		s += " note=" + note
	}
	return s
}

// check is the oracle. It returns the outcome of the hostile input.
func check(t failer, tg *target, in []byte, seedName string, kinds []string) outcome {
	if len(in) > maxInput {
		in = in[:maxInput]
	}
	if in == nil {
		in = []byte{}
	}
	r := guarded(tg, in)
	if r.panicVal != nil {
		ev.Violation(t, "panic-"+tg.name, "panic: %v; %s\n%s", r.panicVal, describe(tg, in, seedName, kinds, r.out.note), trimStack(r.stack))
	}
	if r.timedOut || r.dur > timeLimit {
		worst := r.dur
		hits := 0
		for i := 0; i < reruns; i++ {
			r2 := guarded(tg, in)
			if r2.timedOut || r2.dur > timeLimit {
				hits++
			}
			if r2.dur < worst {
				worst = r2.dur
			}
		}
		if hits == reruns {
			ev.Violation(t, "slow-"+tg.name, "did not return within %s in %d of %d re-runs (fastest %s); %s", timeLimit, hits, reruns, worst, describe(tg, in, seedName, kinds, ""))
		}
	}
	if r.alloc >= allocLimit {
		least := r.alloc
		hits := 0
		for i := 0; i < reruns; i++ {
			r2 := guarded(tg, in)
			if r2.alloc >= allocLimit {
				hits++
			}
			if r2.alloc < least {
				least = r2.alloc
			}
		}
		if hits == reruns {
			ev.Violation(t, "alloc-"+tg.name, "allocated >= %d bytes in %d of %d re-runs (least %d bytes) for a %d byte input; %s", allocLimit, hits, reruns, least, len(in), describe(tg, in, seedName, kinds, ""))
		}
	}
	if r.out.rt != "" {
		sig := "roundtrip-" + tg.name
		if r.out.rtSig != "" {
			sig = r.out.rtSig
		}
		if ev.Excluded(sig) {
			// the input satisfies exactly the precondition of an excluded known finding: the caller
			// counts it as a discard; everything else about it was still checked
			r.out.excluded = sig
		} else {
			ev.Violation(t, sig, "accepted input does not re-encode/decode consistently: %s; %s", r.out.rt, describe(tg, in, seedName, kinds, r.out.note))
		}
	}
	if r.out.violSig != "" {
		ev.Violation(t, r.out.violSig+"-"+tg.name, "%s; %s", r.out.violMsg, describe(tg, in, seedName, kinds, r.out.note))
	}
	// No corrupted global state: the known-good input must still give the identical result.
	g := guarded(tg, tg.good)
	switch {
	case g.panicVal != nil:
		ev.Violation(t, "state-"+tg.name, "the known-good input panics (%v) after the hostile input; %s\n%s", g.panicVal, describe(tg, in, seedName, kinds, ""), trimStack(g.stack))
	case g.timedOut:
		ev.Violation(t, "state-"+tg.name, "the known-good input does not return after the hostile input; %s", describe(tg, in, seedName, kinds, ""))
	case g.out.digest != tg.goodDigest:
		ev.Violation(t, "state-"+tg.name, "the known-good input now gives %q instead of %q after the hostile input; %s", g.out.digest, tg.goodDigest, describe(tg, in, seedName, kinds, ""))
	}
	return r.out
}

func trimStack(s string) string {
	// keep the frames from the panic downwards, drop the guard frames at the bottom
	if i := strings.Index(s, "panic("); i >= 0 {
		s = s[i:]
	}
	if len(s) > 3500 {
		s = s[:3500] + "\n..."
	}
	return s
}

func digestOf(parts ...any) string {
	h := sha256.New()
	for _, p := range parts {
		switch v := p.(type) {
		case []byte:
			fmt.Fprintf(h, "%d:", len(v))
			h.Write(v)
		default:
			fmt.Fprintf(h, "%v|", v)
		}
	}
	return hex.EncodeToString(h.Sum(nil)[:12])
}

func errDigest(err error) string {
	if err == nil {
		return "ok"
	}
	return "err:" + err.Error()
}

// ---------------------------------------------------------------------------------------
// Groups.

type group struct {
	name    string // Cbor, Frames, ...
	once    sync.Once
	build   func() ([]*target, error)
	targets []*target
	err     error
}

func (g *group) init() ([]*target, error) {
	g.once.Do(func() {
		defer func() {
			if p := recover(); p != nil {
				g.err = fmt.Errorf("corpus construction panicked: %v\n%s", p, debug.Stack())
			}
		}()
		g.targets, g.err = g.build()
		if g.err != nil {
			return
		}
		for _, tg := range g.targets {
			if len(tg.seeds) == 0 {
				g.err = fmt.Errorf("target %s has no seeds", tg.name)
				return
			}
			if tg.good == nil {
				tg.good = tg.seeds[0].data
			}
			// reference result of the known-good input; it must be stable and accepted
			a, b := guarded(tg, tg.good), guarded(tg, tg.good)
			if a.panicVal != nil || a.timedOut {
				g.err = fmt.Errorf("target %s: known-good input fails: %v %s", tg.name, a.panicVal, a.stack)
				return
			}
			if a.out.digest != b.out.digest {
				g.err = fmt.Errorf("target %s: known-good input is not deterministic: %q vs %q", tg.name, a.out.digest, b.out.digest)
				return
			}
			if a.out.depth < tg.wantDepth {
				g.err = fmt.Errorf("target %s: known-good input only reaches depth %d (want %d): %s", tg.name, a.out.depth, tg.wantDepth, a.out.digest)
				return
			}
			tg.goodDigest = a.out.digest
			for _, s := range tg.seeds {
				tg.others = append(tg.others, s.data)
			}
		}
	})
	return g.targets, g.err
}

var hostileNames = mut.HostileNames()

func hostileConst(name string) []byte { return mut.Hostile()[name] }

// seedPass feeds every seed and (where meaningful) every hostile constant unmutated. Valid seeds
// must be accepted (a harness self check: otherwise the corpus is broken -> INFRA).
func seedPass(t failer, rec *ev.Recorder, tgs []*target) {
	for _, tg := range tgs {
		for _, s := range tg.seeds {
			out := check(t, tg, s.data, s.name, []string{"seed"})
			if out.depth < tg.wantDepth {
				ev.Infra(t, "target %s: valid seed %q only reaches depth %d (want %d): %s", tg.name, s.name, out.depth, tg.wantDepth, out.digest)
			}
			record(rec, tg, s.data, out, "seed", nil)
		}
		for _, s := range tg.extra {
			if sig := excluded(tg, s.data); sig != "" {
				rec.Discard("excluded:" + sig)
				continue
			}
			out := check(t, tg, s.data, s.name, []string{"extra-seed"})
			record(rec, tg, s.data, out, "extra-seed", nil)
		}
		if tg.hostile {
			for _, hn := range hostileNames {
				c := hostileConst(hn)
				if sig := excluded(tg, c); sig != "" {
					rec.Discard("excluded:" + sig)
					continue
				}
				out := check(t, tg, c, "hostile:"+hn, []string{"const"})
				record(rec, tg, c, out, "hostile-const", nil)
			}
		}
	}
}

func excluded(tg *target, in []byte) string {
	if tg.skip == nil {
		return ""
	}
	if sig := tg.skip(in); sig != "" && ev.Excluded(sig) {
		return sig
	}
	return ""
}

func record(rec *ev.Recorder, tg *target, in []byte, out outcome, how string, kinds []string) {
	if out.excluded != "" {
		rec.Discard("excluded:" + out.excluded)
		return
	}
	rec.Label("n:" + tg.name)
	rec.Label(fmt.Sprintf("depth%d:%s", min(out.depth, 3), tg.name))
	rec.Label("how:" + how)
	for _, k := range kinds {
		if i := strings.Index(k, ":"); i > 0 && strings.HasPrefix(k, "str-bytes") {
			k = k[:i]
		}
		rec.Label("mut:" + k)
	}
	nt := out.depth >= 1
	if nt {
		rec.Label("nt:" + tg.name)
	}
	var sample any
	if nt && how != "seed" && rec.WantSample() {
		h := hex.EncodeToString(in)
		if len(h) > 600 {
			h = h[:600] + "..."
		}
		sample = map[string]any{"target": tg.name, "how": how, "mutations": kinds, "depth": out.depth, "result": trunc(out.digest, 160), "len": len(in), "input_hex": h}
	}
	rec.Case(nt, ev.Fingerprint(tg.name, in), sample)
}

func trunc(s string, n int) string {
	if len(s) > n {
		return s[:n] + "..."
	}
	return s
}

// genInput draws one hostile input for the target.
func genInput(t *rapid.T, tg *target) (in []byte, seedName, how string, kinds []string) {
	mode := mut.Uniform(t, "mode", 20)
	opts := mut.Opts{Others: tg.others, Seq: tg.seq, CBORPercent: tg.cborPercent}
	all := tg.seeds
	if len(tg.extra) > 0 && mode >= 16 {
		all = tg.extra
	}
	switch {
	case tg.gen != nil && mode >= 2 && mode <= 10:
		in, seedName, kinds = tg.gen(t)
		how = "generated"
		if mode >= 9 { // plus a generic mutation on top
			var k2 []string
			opts.MaxSteps = 1
			in, k2 = mut.Mutate(t, in, opts)
			kinds = append(kinds, k2...)
		}
	case mode == 0 && tg.hostile:
		// hostile constant, possibly mutated once
		hn := mut.Pick(t, "hconst", hostileNames)
		in = hostileConst(hn)
		seedName, how = "hostile:"+hn, "hostile-mutated"
		opts.MaxSteps = 1
		in, kinds = mut.Mutate(t, in, opts)
	case mode == 1:
		// two seeds spliced, then mutated
		a := mut.Pick(t, "seedA", tg.seeds)
		b := mut.Pick(t, "seedB", tg.seeds)
		cut := mut.Intn(t, "cutA", 0, len(a.data))
		cut2 := mut.Intn(t, "cutB", 0, len(b.data))
		in = append(append([]byte{}, a.data[:cut]...), b.data[cut2:]...)
		seedName, how, kinds = a.name+"+"+b.name, "crossover", []string{"crossover"}
	default:
		s := mut.Pick(t, "seed", all)
		if tg.hot != nil {
			opts.Hot = tg.hot(s.data)
		}
		seedName, how = s.name, "mutated"
		in, kinds = mut.Mutate(t, s.data, opts)
	}
	return
}

var assumptions = []string{
	"inputs are at most 64 KiB; the time (10 s) and allocation (1 GiB, runtime.MemStats.TotalAlloc delta) limits are generous and a hit is re-run 3 times before it counts",
	"round trip = decode, cbor.Marshal (or MarshalBinary), decode again, marshal again: the second decode must succeed and both encodings must be byte-identical",
	"signed envelopes around hostile inner blobs are produced with the harness's own keys (the attacker signs what he likes); Intel-signed collateral cannot be forged, so mutated quotes / AVRs stop at the first signature check",
	"runtime fatal errors (stack exhaustion, out of memory) cannot be recovered in-process: they kill the shard, which the driver reports as a failure of the test with the shard's seed as replay",
}

func ruleFor(g *group) string {
	return "case = one input (<= 64 KiB) for one " + g.name + " target: a valid encoding built with the repo's constructors / testdata after 1-6 stacked structured mutations (byte level: bit flip, byte set, truncate, extend, " +
		"dup/swap/drop slice, integer field +-1/max, splice, hostile constant; CBOR aware: length header -> huge / indefinite / off by n / non-minimal, nest N levels, duplicate map key, tag, replace item by another type, " +
		"integer argument, drop/dup/swap element, splice item, string resize, recursion into byte strings holding CBOR), a crossover of two valid encodings, or a hostile CBOR constant; target variants wrap the input the way an attacker " +
		"would (re-sign the mutated blob, fix the length prefix / digest / size field) so that nested decoders are reached; oracle inside the target: no panic, returns within 10 s, allocates < 1 GiB, accepted input re-encodes/decodes consistently, " +
		"the fixed known-good input of the target gives the identical result afterwards; non-trivial = depth marker >= 1 (the outer decoder accepted: CBOR envelope decoded, node kind byte ok, chunk digest matched, quote parsed ...; per target in coverage.targets); distinct = hash of target and input"
}
