package c16

import (
	"bytes"
	"fmt"
	"testing"

	"github.com/oasisprotocol/oasis-core/go/storage/mkvs"
	"github.com/oasisprotocol/oasis-core/go/storage/mkvs/node"
	"github.com/oasisprotocol/oasis-core/go/storage/mkvs/syncer"
	"github.com/oasisprotocol/oasis-core/go/storage/mkvs/writelog"

	"verifharness/ev"
)

// TestC16LongKeys is the regression of "fix: mkvs keys longer than 8191 bytes crash the tree": positions inside a key are
// 16-bit bit offsets, so the bit length of a key of 8192 bytes or more wraps around. A write log received from a peer with
// two such keys sharing a prefix made ApplyWriteLog panic (index out of range), a single such key was stored with a
// truncated length field, and a Seek (also what a remote SyncIterate request turns into) to such a key panicked. Named by
// authors of rounds 9 and 10; the write-log boundary had no apply target in C16 before (now `writelog-apply`).
func TestC16LongKeys(t *testing.T) {
	rec := ev.New("C16", "TestC16LongKeys", "deterministic regression cases: keys of 8191 (longest addressable), 8192, 8193 and 65536 bytes in an applied write log (two keys sharing all but the last byte, and a single key), in an iterator Seek and in a SyncIterate request: an error or a correct result, never a panic, and a key that was accepted reads back", "")
	defer rec.Flush()
	for _, n := range []int{8191, 8192, 8193, 65536} {
		k1 := bytes.Repeat([]byte{0x41}, n)
		k2 := append(bytes.Repeat([]byte{0x41}, n-1), 0x42)
		for _, shape := range []string{"two-keys", "one-key", "seek", "sync-iterate"} {
			name := fmt.Sprintf("%s/%d", shape, n)
			func() {
				defer func() {
					if r := recover(); r != nil {
						ev.Violation(t, "panic-long-key", "%s: panic: %v", name, r)
					}
				}()
				tr := mkvs.New(nil, nil, node.RootTypeState)
				defer tr.Close()
				_ = tr.Insert(bg, []byte("AAAA"), []byte("x"))
				_ = tr.Insert(bg, []byte("AAAB"), []byte("y"))
				var err error
				switch shape {
				case "two-keys", "one-key":
					wl := writelog.WriteLog{{Key: k1, Value: []byte("a")}}
					if shape == "two-keys" {
						wl = append(wl, writelog.LogEntry{Key: k2, Value: []byte("b")})
					}
					if err = tr.ApplyWriteLog(bg, writelog.NewStaticIterator(wl)); err == nil {
						for _, e := range wl {
							if v, gerr := tr.Get(bg, e.Key); gerr != nil || !bytes.Equal(v, e.Value) {
								ev.Violation(t, "roundtrip-long-key", "%s: write log applied without error but the %d-byte key reads %q, %v", name, len(e.Key), v, gerr)
							}
						}
					}
				case "seek":
					it := tr.NewIterator(bg)
					it.Seek(k1)
					err = it.Err()
					if err == nil && it.Valid() && bytes.Compare(it.Key(), k1) < 0 {
						ev.Violation(t, "roundtrip-long-key", "%s: Seek positioned the iterator at the smaller key %x", name, it.Key())
					}
					it.Close()
				default:
					_, err = tr.SyncIterate(bg, &syncer.IterateRequest{Tree: syncer.TreeID{}, Key: k1, Prefetch: 10})
				}
				rec.Case(true, ev.Fingerprint(name), fmt.Sprintf("%s: err=%v", name, err))
				if n <= node.MaxKeySize && err != nil && shape != "sync-iterate" {
					ev.Violation(t, "honest-long-key-rejected", "%s: a key of the longest addressable size is refused: %v", name, err)
				}
			}()
		}
	}
}
