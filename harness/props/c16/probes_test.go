package c16

import (
	"fmt"

	"github.com/oasisprotocol/oasis-core/go/common"
	"github.com/oasisprotocol/oasis-core/go/common/cbor"
	"github.com/oasisprotocol/oasis-core/go/common/node"
	registry "github.com/oasisprotocol/oasis-core/go/registry/api"
)

// probeNamespaceArrayForm returns what still reproduces of the known finding (empty = fixed).
func probeNamespaceArrayForm() []string {
	var msgs []string
	var ns common.Namespace
	in := []byte{0x82, 0x00, 0x01}
	if err := cbor.Unmarshal(in, &ns); err == nil {
		m := cbor.Marshal(ns)
		var ns2 common.Namespace
		if err2 := cbor.Unmarshal(m, &ns2); err2 != nil {
			msgs = append(msgs, fmt.Sprintf("cbor.Unmarshal(%x) into common.Namespace is accepted (value %s); its re-encoding %x is rejected: %v", in, ns, m, err2))
		}
	}
	// the same through a runtime descriptor and the registry's stateless verification
	rt := testRuntime(registry.KindCompute, node.TEEHardwareInvalid)
	id := make([]byte, 32)
	id[1], id[31] = 0x01, 0x16
	idArr := append([]byte{0x98, 0x20}, id...) // array(32) of one-byte integers
	doc := withMapValue(cbor.Marshal(rt), "id", idArr, false)
	var got registry.Runtime
	if err := cbor.Unmarshal(doc, &got); err == nil {
		verr := registry.VerifyRuntime(regParams, c16Logger, &got, 5, registry.VerifyRuntimeOptions{IsFeatureVersion261: true})
		stored := cbor.Marshal(&got)
		var back registry.Runtime
		if err2 := cbor.Unmarshal(stored, &back); err2 != nil {
			msgs = append(msgs, fmt.Sprintf("runtime descriptor with id given as array(32) of integers (id %s) decodes, registry.VerifyRuntime returns %v, and the descriptor's own encoding is rejected afterwards: %v", got.ID, verr, err2))
		}
	}
	return msgs
}
