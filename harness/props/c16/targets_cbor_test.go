package c16

import (
	"bytes"
	"context"
	"encoding/json"
	"fmt"
	"reflect"
	"strings"

	beacon "github.com/oasisprotocol/oasis-core/go/beacon/api"
	"github.com/oasisprotocol/oasis-core/go/common"
	"github.com/oasisprotocol/oasis-core/go/common/cbor"
	"github.com/oasisprotocol/oasis-core/go/common/crypto/hash"
	"github.com/oasisprotocol/oasis-core/go/common/crypto/signature"
	"github.com/oasisprotocol/oasis-core/go/common/entity"
	"github.com/oasisprotocol/oasis-core/go/common/node"
	"github.com/oasisprotocol/oasis-core/go/common/quantity"
	"github.com/oasisprotocol/oasis-core/go/consensus/api/transaction"
	governance "github.com/oasisprotocol/oasis-core/go/governance/api"
	registry "github.com/oasisprotocol/oasis-core/go/registry/api"
	roothash "github.com/oasisprotocol/oasis-core/go/roothash/api"
	"github.com/oasisprotocol/oasis-core/go/roothash/api/commitment"
	staking "github.com/oasisprotocol/oasis-core/go/staking/api"
	"github.com/oasisprotocol/oasis-core/go/storage/mkvs/checkpoint"
	mkvsNode "github.com/oasisprotocol/oasis-core/go/storage/mkvs/node"
	"github.com/oasisprotocol/oasis-core/go/storage/mkvs/syncer"
	"github.com/oasisprotocol/oasis-core/go/storage/mkvs/writelog"

	"verifharness/mut"

	// Register the remaining transaction methods the way the node binary does.
	_ "github.com/oasisprotocol/oasis-core/go/consensus/api"
	_ "github.com/oasisprotocol/oasis-core/go/keymanager/churp"
	_ "github.com/oasisprotocol/oasis-core/go/keymanager/secrets"
	_ "github.com/oasisprotocol/oasis-core/go/vault/api"
)

func jsonUnmarshal(b []byte, v any) error { return json.Unmarshal(b, v) }

var bg = context.Background()

// roundTrip re-encodes an accepted value and decodes it again. It returns the first encoding and
// a description of an inconsistency ("" if consistent).
func roundTrip[T any](v *T) ([]byte, string) {
	m1 := cbor.Marshal(v)
	var v2 T
	if err := cbor.Unmarshal(m1, &v2); err != nil {
		return m1, rejectedMsg(fmt.Sprintf("%T", v), m1, err)
	}
	if m2 := cbor.Marshal(&v2); !bytes.Equal(m1, m2) {
		return m1, fmt.Sprintf("%T: second encoding %s differs from the first %s", v, hexShort(m2), hexShort(m1))
	}
	return m1, ""
}

func rejectedMsg(what string, m1 []byte, err error) string {
	return fmt.Sprintf("%s: re-encoded value %s is rejected by the decoder that accepted the original: %v", what, hexShort(m1), err)
}

// SigNamespaceArrayForm is the signature of the known finding "a common.Namespace given as a CBOR
// array of integers bypasses Namespace.UnmarshalBinary (length and reserved-flag checks); the
// accepted value re-encodes to a byte string that every decoder rejects".
const SigNamespaceArrayForm = "namespace-array-form"

// classify maps a round-trip failure to the signature of a precise class, if it has one.
func classify(o *outcome) {
	if o.rt != "" && o.rtSig == "" && strings.Contains(o.rt, "rejected by the decoder that accepted the original: malformed namespace") {
		o.rtSig = SigNamespaceArrayForm
	}
}

// cborTarget builds a target for cbor.Unmarshal into T. post (optional) continues with the nested
// decode / verification a node performs on an accepted value; it may raise o.depth, set o.rt and
// returns text that becomes part of the digest.
func cborTarget[T any](name, doc string, seeds []seed, wantDepth int, post func(v *T, o *outcome) string) *target {
	tg := &target{name: name, doc: doc, seeds: seeds, wantDepth: wantDepth, hostile: true}
	tg.run = func(in []byte) outcome {
		var v T
		if err := cbor.Unmarshal(in, &v); err != nil {
			return outcome{digest: errDigest(err)}
		}
		o := outcome{depth: 1}
		policy(in, &o)
		m1, rt := roundTrip(&v)
		o.rt = rt
		info := ""
		if post != nil {
			info = post(&v, &o)
		}
		classify(&o)
		o.digest = digestOf(m1, info)
		return o
	}
	return tg
}

// maxCBORNesting is the nesting bound of the decoder for untrusted input (the CBOR library's default
// of 32 levels, which go/common/cbor relies on by not overriding it).
const maxCBORNesting = 32

// policy checks an input that the strict decoder ACCEPTED against the decode options for untrusted
// input (go/common/cbor/cbor.go): no indefinite lengths, no tags, duplicate keys rejected, bounded
// nesting. An accepted input showing one of these is the depth marker for a weakened decoder (the
// blow-up itself is out of reach for inputs of at most 64 KiB).
func policy(in []byte, o *outcome) {
	f := mut.Scan(in)
	switch {
	case f.TooDeep || (f.Parsed && f.Depth > maxCBORNesting+2):
		o.violSig, o.violMsg = "policy", fmt.Sprintf("strict CBOR decoder accepted an input nested more than %d levels deep (depth %d, beyond parser limit: %v)", maxCBORNesting, f.Depth, f.TooDeep)
	case !f.Parsed:
	case f.Indef:
		o.violSig, o.violMsg = "policy", "strict CBOR decoder accepted an indefinite-length item"
	case f.Tag:
		o.violSig, o.violMsg = "policy", "strict CBOR decoder accepted a tagged item"
	case f.DupTop:
		o.violSig, o.violMsg = "policy", "strict CBOR decoder accepted a map with a duplicate key"
	}
}

// withMapValue returns doc (a CBOR map) with the value of the text key replaced by repl (or the
// pair appended when the key is absent; dup appends a second pair even when it is present).
func withMapValue(doc []byte, key string, repl []byte, dup bool) []byte {
	it, _, err := mut.Parse(doc)
	if err != nil || it.Major != 5 || it.Indef {
		panic("withMapValue: not a definite map")
	}
	k := append(mut.Head(3, uint64(len(key))), key...)
	if !dup {
		for i := 0; i+1 < len(it.Kids); i += 2 {
			if bytes.Equal(doc[it.Kids[i].Start:it.Kids[i].End], k) {
				v := it.Kids[i+1]
				return append(append(append([]byte{}, doc[:v.Start]...), repl...), doc[v.End:]...)
			}
		}
	}
	out := append(mut.Head(5, uint64(len(it.Kids)/2+1)), doc[it.HeadEnd:it.End]...)
	return append(append(out, k...), repl...)
}

// policyProbes are encodings that differ from a valid one only by a construct the decoder for
// untrusted input must refuse; they sit in a position that is otherwise free-form (a RawMessage
// or an `any`), so a weakened decoder accepts them.
func policyProbes(doc []byte, rawKey string) []seed {
	return []seed{
		{"probe-nest-34-array", withMapValue(doc, rawKey, mut.Nest([]byte{0x00}, 34, 'a'), false)},
		{"probe-nest-40-map", withMapValue(doc, rawKey, mut.Nest([]byte{0x00}, 40, 'm'), false)},
		{"probe-nest-200-array", withMapValue(doc, rawKey, mut.Nest([]byte{0x00}, 200, 'a'), false)},
		{"probe-nest-5000-array", withMapValue(doc, rawKey, mut.Nest([]byte{0x00}, 5000, 'a'), false)},
		{"probe-indef-array", withMapValue(doc, rawKey, []byte{0x9f, 0x00, 0xff}, false)},
		{"probe-indef-bstr", withMapValue(doc, rawKey, []byte{0x5f, 0x41, 0x00, 0xff}, false)},
		{"probe-indef-map", withMapValue(doc, rawKey, []byte{0xbf, 0x00, 0x00, 0xff}, false)},
		{"probe-tag", withMapValue(doc, rawKey, []byte{0xc1, 0x00}, false)},
		{"probe-tag-bignum", withMapValue(doc, rawKey, []byte{0xc2, 0x41, 0x01}, false)},
		{"probe-dup-top-key", withMapValue(doc, rawKey, []byte{0x00}, true)},
	}
}

func seedsOf[T any](vals ...any) []seed {
	// vals alternates name, value
	var out []seed
	for i := 0; i+1 < len(vals); i += 2 {
		out = append(out, seed{name: vals[i].(string), data: cbor.Marshal(vals[i+1])})
	}
	return out
}

var (
	commissionRules = staking.CommissionScheduleRules{RateChangeInterval: 1, RateBoundLead: 3, MaxRateSteps: 10, MaxBoundSteps: 10}
	govParamsMeta   = governance.ConsensusParameters{AllowProposalMetadata: true}
	govParamsNoMeta = governance.ConsensusParameters{}
)

// validateBody performs the stateless checks the applications run on a decoded method body.
func validateBody(body any, o *outcome) string {
	switch b := body.(type) {
	case *governance.ProposalContent:
		e1, e2 := b.ValidateBasic(&govParamsMeta), b.ValidateBasic(&govParamsNoMeta)
		return fmt.Sprint(e1, e2)
	case *staking.AmendCommissionSchedule:
		cur := staking.CommissionSchedule{
			Rates:  []staking.CommissionRateStep{{Start: 0, Rate: q(5_000)}},
			Bounds: []staking.CommissionRateBoundStep{{Start: 0, RateMin: q(0), RateMax: q(100_000)}},
		}
		err := cur.AmendAndPruneAndValidate(&b.Amendment, &commissionRules, 10)
		return fmt.Sprint(err, cur.CurrentRate(25))
	case *roothash.ExecutorCommit:
		// like the roothash application: stop at the first commitment that does not verify
		s := ""
		for i := range b.Commits {
			e1, e2 := b.Commits[i].ValidateBasic(), b.Commits[i].Verify(b.ID)
			s += fmt.Sprint(e1, e2, b.Commits[i].Header.VerifyRAK(sgRAK.Public()), b.Commits[i].ToVote())
			if e1 != nil || e2 != nil {
				break
			}
		}
		return s
	case *roothash.Evidence:
		err := b.ValidateBasic()
		if err == nil {
			h, herr := b.Hash()
			return fmt.Sprint(h, herr)
		}
		return fmt.Sprint(err)
	case *entity.SignedEntity:
		var e entity.Entity
		if err := b.Open(registry.RegisterEntitySignatureContext, &e); err != nil {
			return err.Error()
		}
		if o.depth < 3 {
			o.depth = 3
		}
		return fmt.Sprint(e.ValidateBasic(true), e.String())
	case *node.MultiSignedNode:
		var n node.Node
		if err := b.Open(registry.RegisterNodeSignatureContext, &n); err != nil {
			return err.Error()
		}
		if o.depth < 3 {
			o.depth = 3
		}
		return fmt.Sprint(n.ValidateBasic(true), n.String())
	case *registry.Runtime:
		return fmt.Sprint(b.ValidateBasic(true), b.ValidateBasic(false))
	}
	return ""
}

// openBody decodes the body of a transaction by its method, as the applications do.
func openBody(tx *transaction.Transaction, o *outcome, bodyDepth int) string {
	if err := tx.SanityCheck(); err != nil {
		return err.Error()
	}
	fee := ""
	if tx.Fee != nil {
		fee = tx.Fee.GasPrice().String()
	}
	bt := tx.Method.BodyType()
	if bt == nil {
		return fee + " unknown method " + string(tx.Method)
	}
	body := reflect.New(reflect.TypeOf(bt)).Interface()
	if err := cbor.Unmarshal(tx.Body, body); err != nil {
		return fee + " body: " + err.Error()
	}
	if o.depth < bodyDepth {
		o.depth = bodyDepth
	}
	m1 := cbor.Marshal(body)
	body2 := reflect.New(reflect.TypeOf(bt)).Interface()
	if err := cbor.Unmarshal(m1, body2); err != nil {
		o.rt = rejectedMsg(string(tx.Method)+" body", m1, err)
	} else if m2 := cbor.Marshal(body2); !bytes.Equal(m1, m2) {
		o.rt = fmt.Sprintf("%s body: second encoding %s differs from the first %s", tx.Method, hexShort(m2), hexShort(m1))
	}
	return fee + " " + string(tx.Method) + " " + digestOf(m1) + " " + validateBody(body, o)
}

func postSignedTx(v *transaction.SignedTransaction, o *outcome) string {
	var tx transaction.Transaction
	if err := v.Open(&tx); err != nil {
		return err.Error()
	}
	o.depth = 2
	return v.Hash().String() + " " + openBody(&tx, o, 3)
}

// signedVariant feeds Sign(key, input) to base: the attacker signs whatever blob he likes.
func signedVariant(base *target, inner []seed, wantDepth int, wrap func(blob []byte) []byte) *target {
	return &target{
		name: base.name + "+signed", doc: "input = the signed blob; the harness signs it with its own keys, then as " + base.name,
		seeds: inner, wantDepth: wantDepth, hostile: true,
		run: func(in []byte) outcome {
			env := wrap(in)
			o := base.run(env)
			o.note = "envelope=" + hexShort(env)
			return o
		},
	}
}

func buildCborGroup() ([]*target, error) {
	txs := testTransactions()
	var txSeeds, stxSeeds []seed
	bodySeeds := map[string][]seed{}
	for _, n := range txs {
		txSeeds = append(txSeeds, seed{n.name, cbor.Marshal(n.tx)})
		stxSeeds = append(stxSeeds, seed{n.name, signTx(n.tx)})
		bodySeeds[string(n.tx.Method)] = append(bodySeeds[string(n.tx.Method)], seed{n.name, []byte(n.tx.Body)})
	}
	var tgs []*target

	stx := cborTarget("cbor-SignedTransaction", "1 envelope decoded, 2 signature ok + transaction decoded, 3 method body decoded", stxSeeds, 3, postSignedTx)
	tgs = append(tgs, stx, signedVariant(stx, txSeeds, 3, func(blob []byte) []byte {
		sig := must(signature.Sign(sgTx, transaction.SignatureContext, blob))
		return cbor.Marshal(&transaction.SignedTransaction{Signed: signature.Signed{Blob: blob, Signature: *sig}})
	}))
	txT := cborTarget("cbor-Transaction", "1 transaction decoded, 2 method body decoded", txSeeds, 2, func(v *transaction.Transaction, o *outcome) string {
		return openBody(v, o, 2)
	})
	txT.extra = policyProbes(txSeeds[0].data, "body")
	tgs = append(tgs, txT)

	// One target per method body type (decoded directly, plus the stateless validation).
	body := func(t *target) { tgs = append(tgs, t) }
	body(cborTarget("cbor-staking.Transfer", "1 decoded", bodySeeds["staking.Transfer"], 1, func(v *staking.Transfer, o *outcome) string { return v.To.String() }))
	body(cborTarget[staking.Burn]("cbor-staking.Burn", "1 decoded", bodySeeds["staking.Burn"], 1, nil))
	body(cborTarget("cbor-staking.Escrow", "1 decoded", bodySeeds["staking.AddEscrow"], 1, func(v *staking.Escrow, o *outcome) string { return v.Account.String() }))
	body(cborTarget[staking.ReclaimEscrow]("cbor-staking.ReclaimEscrow", "1 decoded", bodySeeds["staking.ReclaimEscrow"], 1, nil))
	body(cborTarget("cbor-staking.AmendCommissionSchedule", "1 decoded (+ amendment validated against a fixed schedule)", bodySeeds["staking.AmendCommissionSchedule"], 1,
		func(v *staking.AmendCommissionSchedule, o *outcome) string { return validateBody(v, o) }))
	body(cborTarget[staking.Allow]("cbor-staking.Allow", "1 decoded", bodySeeds["staking.Allow"], 1, nil))
	body(cborTarget[staking.Withdraw]("cbor-staking.Withdraw", "1 decoded", bodySeeds["staking.Withdraw"], 1, nil))
	body(cborTarget[registry.DeregisterEntity]("cbor-registry.DeregisterEntity", "1 decoded", []seed{{"empty-map", cbor.Marshal(registry.DeregisterEntity{})}}, 1, nil))
	body(cborTarget[registry.UnfreezeNode]("cbor-registry.UnfreezeNode", "1 decoded", bodySeeds["registry.UnfreezeNode"], 1, nil))
	body(cborTarget("cbor-governance.ProposalContent", "1 decoded (+ ValidateBasic)", bodySeeds["governance.SubmitProposal"], 1,
		func(v *governance.ProposalContent, o *outcome) string { return validateBody(v, o) }))
	body(cborTarget[governance.ProposalVote]("cbor-governance.ProposalVote", "1 decoded", bodySeeds["governance.CastVote"], 1, nil))
	body(cborTarget("cbor-roothash.ExecutorCommit", "1 decoded (+ ValidateBasic, Verify of every commitment)", bodySeeds["roothash.ExecutorCommit"], 1,
		func(v *roothash.ExecutorCommit, o *outcome) string { return validateBody(v, o) }))
	body(cborTarget("cbor-roothash.Evidence", "1 decoded (+ ValidateBasic incl. signatures)", bodySeeds["roothash.Evidence"], 1,
		func(v *roothash.Evidence, o *outcome) string { return validateBody(v, o) }))
	body(cborTarget[roothash.SubmitMsg]("cbor-roothash.SubmitMsg", "1 decoded", bodySeeds["roothash.SubmitMsg"], 1, nil))
	body(cborTarget[beacon.EpochTime]("cbor-beacon.EpochTime", "1 decoded", bodySeeds["beacon.SetEpoch"], 1, nil))
	body(cborTarget[[32]byte]("cbor-registry.ProveFreshness", "1 decoded", bodySeeds["registry.ProveFreshness"], 1, nil))

	// Descriptors (decode + signature open; full verification lives in the Descriptors group).
	ent := cborTarget("cbor-entity.SignedEntity", "1 envelope decoded, 3 signature ok + entity decoded", bodySeeds["registry.RegisterEntity"], 3,
		func(v *entity.SignedEntity, o *outcome) string { return validateBody(v, o) })
	tgs = append(tgs, ent, signedVariant(ent, seedsOf[entity.Entity]("entity", testEntity(), "entity-v1", map[string]any{"v": 1, "id": sgEntity.Public(), "allow_entity_signed_nodes": false}), 3, func(blob []byte) []byte {
		sig := must(signature.Sign(sgEntity, registry.RegisterEntitySignatureContext, blob))
		return cbor.Marshal(&entity.SignedEntity{Signed: signature.Signed{Blob: blob, Signature: *sig}})
	}))
	nd := cborTarget("cbor-node.MultiSignedNode", "1 envelope decoded, 3 signatures ok + node decoded", bodySeeds["registry.RegisterNode"], 3,
		func(v *node.MultiSignedNode, o *outcome) string { return validateBody(v, o) })
	nodeSeeds := seedsOf[node.Node]("node", testNode(nil), "node-pcs", testNode(pcsAttestation()), "node-ias", testNode(iasAttestation()))
	tgs = append(tgs, nd, signedVariant(nd, nodeSeeds, 3, multiSignNodeBlob))
	tgs = append(tgs, cborTarget("cbor-registry.Runtime", "1 decoded (+ ValidateBasic)", bodySeeds["registry.RegisterRuntime"], 1,
		func(v *registry.Runtime, o *outcome) string { return validateBody(v, o) }))

	// Commitments.
	tgs = append(tgs, cborTarget("cbor-commitment.ExecutorCommitment", "1 decoded, 2 ValidateBasic ok, 3 signature ok",
		seedsOf[commitment.ExecutorCommitment]("ok", testCommitment(commitment.FailureNone, nil), "failure", testCommitment(commitment.FailureStateUnavailable, nil), "messages", testCommitment(commitment.FailureNone, testMessages())), 3,
		func(v *commitment.ExecutorCommitment, o *outcome) string {
			e1 := v.ValidateBasic()
			if e1 == nil {
				o.depth = 2
			}
			e2 := v.Verify(rtID)
			if e1 == nil && e2 == nil {
				o.depth = 3
			}
			return fmt.Sprint(e1, e2, v.Header.VerifyRAK(sgRAK.Public()), v.ToVote(), v.IsIndicatingFailure())
		}))
	tgs = append(tgs, cborTarget("cbor-commitment.Proposal", "1 decoded, 2 signature(s) ok",
		seedsOf[commitment.Proposal]("empty", testProposal(0), "batch", testProposal(5)), 2,
		func(v *commitment.Proposal, o *outcome) string {
			err := v.Verify(rtID)
			if err == nil {
				o.depth = 2
			}
			return fmt.Sprint(err)
		}))

	// Storage structures.
	ps, err := proofSeeds()
	if err != nil {
		return nil, err
	}
	var proofCbor []seed
	for _, p := range ps {
		proofCbor = append(proofCbor, seed{p.name, cbor.Marshal(p.proof)})
	}
	tgs = append(tgs, cborTarget("cbor-syncer.Proof", "1 decoded, 2 verification against its own untrusted root reached the hash comparison, 3 verified", proofCbor, 3,
		func(v *syncer.Proof, o *outcome) string {
			var pv syncer.ProofVerifier
			_, err := pv.VerifyProof(bg, v.UntrustedRoot, v)
			switch {
			case err == nil:
				o.depth = 3
			case reachedHashCheck(err):
				o.depth = 2
			}
			return fmt.Sprint(err)
		}))
	wl := writelog.WriteLog{{Key: []byte("k1"), Value: []byte("v1")}, {Key: []byte("k2"), Value: nil}, {Key: []byte{}, Value: bytes.Repeat([]byte{7}, 300)}}
	tgs = append(tgs, cborTarget("cbor-writelog.WriteLog", "1 decoded",
		seedsOf[writelog.WriteLog]("three", wl, "empty", writelog.WriteLog{}), 1,
		func(v *writelog.WriteLog, o *outcome) string {
			s := ""
			for i := range *v {
				s += fmt.Sprint((*v)[i].Type())
			}
			return s
		}))
	md := checkpoint.Metadata{Version: 1, Root: mkvsNode.Root{Namespace: rtID, Version: 9, Type: mkvsNode.RootTypeState, Hash: hashOf("root")}, Chunks: []hash.Hash{hashOf("c0"), hashOf("c1")}}
	tgs = append(tgs, cborTarget("cbor-checkpoint.Metadata", "1 decoded, 2 Validate ok", seedsOf[checkpoint.Metadata]("two-chunks", md), 2,
		func(v *checkpoint.Metadata, o *outcome) string {
			err := v.Validate()
			if err == nil {
				o.depth = 2
				_, e2 := v.GetChunkMetadata(uint64(len(v.Chunks)))
				return fmt.Sprint(v.EncodedHash(), e2)
			}
			return fmt.Sprint(err)
		}))
	tgs = append(tgs, cborTarget("cbor-common.Namespace", "1 decoded", seedsOf[common.Namespace]("runtime-id", rtID, "keymanager-id", kmID), 1,
		func(v *common.Namespace, o *outcome) string {
			return fmt.Sprint(v.IsTest(), v.IsKeyManager(), v.String())
		}))
	tgs = append(tgs, cborTarget[quantity.Quantity]("cbor-quantity.Quantity", "1 decoded", seedsOf[quantity.Quantity]("small", q(5), "zero", q(0), "big", q(1<<63)), 1, nil))
	return tgs, nil
}

func multiSignNodeBlob(blob []byte) []byte {
	ms := signature.MultiSigned{Blob: blob}
	for _, s := range nodeSigners {
		sig := must(signature.Sign(s, registry.RegisterNodeSignatureContext, blob))
		ms.Signatures = append(ms.Signatures, *sig)
	}
	return cbor.Marshal(&node.MultiSignedNode{MultiSigned: ms})
}

func reachedHashCheck(err error) bool {
	s := err.Error()
	return bytes.Contains([]byte(s), []byte("bad root")) || bytes.Contains([]byte(s), []byte("unused entries"))
}
