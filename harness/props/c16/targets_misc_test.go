package c16

import (
	"bytes"
	"context"
	"encoding/binary"
	"encoding/json"
	"fmt"
	"io"
	"net"
	"strings"
	"time"

	"github.com/oasisprotocol/oasis-core/go/common"
	"github.com/oasisprotocol/oasis-core/go/common/cbor"
	"github.com/oasisprotocol/oasis-core/go/common/crypto/hash"
	"github.com/oasisprotocol/oasis-core/go/common/crypto/signature"
	"github.com/oasisprotocol/oasis-core/go/common/entity"
	"github.com/oasisprotocol/oasis-core/go/common/logging"
	"github.com/oasisprotocol/oasis-core/go/common/node"
	"github.com/oasisprotocol/oasis-core/go/common/sgx/ias"
	"github.com/oasisprotocol/oasis-core/go/common/sgx/pcs"
	sgxQuote "github.com/oasisprotocol/oasis-core/go/common/sgx/quote"
	"github.com/oasisprotocol/oasis-core/go/common/version"
	consensus "github.com/oasisprotocol/oasis-core/go/consensus/api"
	registry "github.com/oasisprotocol/oasis-core/go/registry/api"
	"github.com/oasisprotocol/oasis-core/go/roothash/api/block"
	"github.com/oasisprotocol/oasis-core/go/roothash/api/commitment"
	"github.com/oasisprotocol/oasis-core/go/roothash/api/message"
	enclaverpc "github.com/oasisprotocol/oasis-core/go/runtime/enclaverpc/api"
	"github.com/oasisprotocol/oasis-core/go/runtime/host/protocol"
	staking "github.com/oasisprotocol/oasis-core/go/staking/api"
	storage "github.com/oasisprotocol/oasis-core/go/storage/api"
	"github.com/oasisprotocol/oasis-core/go/storage/mkvs/syncer"

	"verifharness/mut"
)

// ---------------------------------------------------------------------------------------
// Runtime host protocol frames.

type rwBuf struct {
	r *bytes.Reader
	w bytes.Buffer
}

func (b *rwBuf) Read(p []byte) (int, error)  { return b.r.Read(p) }
func (b *rwBuf) Write(p []byte) (int, error) { return b.w.Write(p) }

// runFrames reads frames the way the connection's reader loop does, until the first error.
func runFrames(in []byte) outcome {
	rw := &rwBuf{r: bytes.NewReader(in)}
	codec := cbor.NewMessageCodec(rw, "c16")
	var o outcome
	var parts []any
	pos := 0
	for i := 0; i < 64; i++ {
		var msg protocol.Message
		if err := codec.Read(&msg); err != nil {
			parts = append(parts, errDigest(err))
			break
		}
		// the accepted frame must respect the decoder policy for untrusted input
		if pos+4 <= len(in) {
			l := int(binary.BigEndian.Uint32(in[pos:]))
			if l >= 0 && pos+4+l <= len(in) {
				policy(in[pos+4:pos+4+l], &o)
				pos += 4 + l
			}
		}
		if o.depth < 1 {
			o.depth = 1
		}
		typ := msg.Body.Type()
		if typ != "" && o.depth < 2 {
			o.depth = 2
		}
		_ = fmt.Sprintf("%+v %s", msg, msg.MessageType) // what the connection logs for a malformed message
		// round trip through the writer
		out := &rwBuf{r: bytes.NewReader(nil)}
		wc := cbor.NewMessageCodec(out, "c16")
		if err := wc.Write(&msg); err != nil {
			o.rt = fmt.Sprintf("accepted message (%s) cannot be written: %v", typ, err)
			break
		}
		m1 := append([]byte{}, out.w.Bytes()...)
		out.r = bytes.NewReader(m1)
		var msg2 protocol.Message
		if err := wc.Read(&msg2); err != nil {
			o.rt = rejectedMsg("message ("+typ+")", m1, err)
			classify(&o)
			break
		}
		if m2 := cbor.Marshal(&msg2); !bytes.Equal(m1[4:], m2) {
			o.rt = fmt.Sprintf("message (%s): second encoding %s differs from the first %s", typ, hexShort(m2), hexShort(m1[4:]))
			break
		}
		parts = append(parts, typ, m1)
	}
	o.digest = digestOf(parts...)
	return o
}

func frame(body []byte) []byte {
	out := make([]byte, 4, 4+len(body))
	binary.BigEndian.PutUint32(out, uint32(len(body)))
	return append(out, body...)
}

func testMessagesRHP() []seed {
	hdr := block.Header{Version: 0, Namespace: rtID, Round: 3, Timestamp: 1_700_000_000, HeaderType: block.Normal, PreviousHash: hashOf("p"), IORoot: hashOf("io"), StateRoot: hashOf("st"), MessagesHash: hashOf("m"), InMessagesHash: hashOf("im")}
	blk := block.Block{Header: hdr}
	lb := consensus.LightBlock{Height: 77, Meta: []byte("light block meta")}
	tid := syncer.TreeID{Root: storage.Root{Namespace: rtID, Version: 3, Type: storage.RootTypeState, Hash: hashOf("st")}, Position: hashOf("st")}
	ps, _ := proofSeeds()
	var proof syncer.Proof
	if len(ps) > 0 {
		proof = *ps[0].proof
	}
	ec := testCommitment(commitment.FailureNone, nil)
	stx := must(signTxValue())
	bodies := []struct {
		name string
		typ  protocol.MessageType
		body protocol.Body
	}{
		{"empty", protocol.MessageResponse, protocol.Body{Empty: &protocol.Empty{}}},
		{"error", protocol.MessageResponse, protocol.Body{Error: &protocol.Error{Module: "rhp", Code: 3, Message: "boom"}}},
		{"info-request", protocol.MessageRequest, protocol.Body{RuntimeInfoRequest: &protocol.RuntimeInfoRequest{RuntimeID: rtID, ConsensusBackend: "cometbft", ConsensusProtocolVersion: version.Versions.ConsensusProtocol,
			ConsensusChainContext: "ctx", LocalConfig: map[string]any{"a": 1, "b": []any{"x", 2}, "c": map[string]any{"d": true}}}}},
		{"info-response", protocol.MessageResponse, protocol.Body{RuntimeInfoResponse: &protocol.RuntimeInfoResponse{ProtocolVersion: version.Versions.RuntimeHostProtocol, RuntimeVersion: version.Version{Major: 1},
			Features: protocol.Features{ScheduleControl: &protocol.FeatureScheduleControl{InitialBatchSize: 10}, KeyManagerQuotePolicyUpdates: true}}}},
		{"rak-report-response", protocol.MessageResponse, protocol.Body{RuntimeCapabilityTEERakReportResponse: &protocol.RuntimeCapabilityTEERakReportResponse{RakPub: sgRAK.Public(), Report: bytes.Repeat([]byte{1}, 432), Nonce: "nonce"}}},
		{"rak-quote-request", protocol.MessageRequest, protocol.Body{RuntimeCapabilityTEERakQuoteRequest: &protocol.RuntimeCapabilityTEERakQuoteRequest{Quote: sgxQuote.Quote{IAS: iasBundle(5)}}}},
		{"rak-quote-response", protocol.MessageResponse, protocol.Body{RuntimeCapabilityTEERakQuoteResponse: &protocol.RuntimeCapabilityTEERakQuoteResponse{Height: 9}}},
		{"check-tx-request", protocol.MessageRequest, protocol.Body{RuntimeCheckTxBatchRequest: &protocol.RuntimeCheckTxBatchRequest{ConsensusBlock: lb, Inputs: [][]byte{[]byte("tx1"), []byte("tx2")}, Block: blk, Epoch: 4, MaxMessages: 32}}},
		{"check-tx-response", protocol.MessageResponse, protocol.Body{RuntimeCheckTxBatchResponse: &protocol.RuntimeCheckTxBatchResponse{Results: []protocol.CheckTxResult{
			{Error: protocol.Error{Module: "m", Code: 1, Message: "bad"}}, {Meta: &protocol.CheckTxMetadata{Priority: 5, Sender: []byte("s"), SenderSeq: 2, SenderStateSeq: 1}}}}}},
		{"execute-response", protocol.MessageResponse, protocol.Body{RuntimeExecuteTxBatchResponse: &protocol.RuntimeExecuteTxBatchResponse{
			Batch: protocol.ComputedBatch{Header: ec.Header.Header, IOWriteLog: storage.WriteLog{{Key: []byte("k"), Value: []byte("v")}}, StateWriteLog: storage.WriteLog{{Key: []byte("k2"), Value: nil}},
				Messages: testMessages()[:3]},
			TxHashes: []hash.Hash{hashOf("t1")}, TxRejectHashes: []hash.Hash{hashOf("t2")}, TxInputRoot: hashOf("in"), TxInputWriteLog: storage.WriteLog{{Key: []byte("i"), Value: []byte("w")}}}}},
		{"execute-request", protocol.MessageRequest, protocol.Body{RuntimeExecuteTxBatchRequest: &protocol.RuntimeExecuteTxBatchRequest{ConsensusBlock: lb, IORoot: hashOf("io"), Inputs: [][]byte{[]byte("tx1")},
			InMessages: []*message.IncomingMessage{{ID: 1, Caller: staking.NewAddress(sgTx.Public()), Tag: 2, Fee: q(1), Tokens: q(2), Data: []byte("d")}}, Block: blk, Epoch: 4, MaxMessages: 32}}},
		{"query-response", protocol.MessageResponse, protocol.Body{RuntimeQueryResponse: &protocol.RuntimeQueryResponse{Data: []byte("result")}}},
		{"rpc-call-request", protocol.MessageRequest, protocol.Body{HostRPCCallRequest: &protocol.HostRPCCallRequest{Endpoint: "key-manager", RequestID: 8, Request: []byte("req"), Kind: enclaverpc.KindInsecureQuery,
			Nodes: []signature.PublicKey{sgNode.Public()}, PeerFeedback: func() *enclaverpc.PeerFeedback { v := enclaverpc.PeerFeedbackBadPeer; return &v }()}}},
		{"peer-feedback", protocol.MessageRequest, protocol.Body{HostSubmitPeerFeedbackRequest: &protocol.HostSubmitPeerFeedbackRequest{Endpoint: "e", RequestID: 1, PeerFeedback: enclaverpc.PeerFeedbackFailure}}},
		{"storage-get", protocol.MessageRequest, protocol.Body{HostStorageSyncRequest: &protocol.HostStorageSyncRequest{Endpoint: protocol.HostStorageEndpointConsensus, SyncGet: &storage.GetRequest{Tree: tid, Key: []byte("key"), IncludeSiblings: true, ProofVersion: 1}}}},
		{"storage-prefixes", protocol.MessageRequest, protocol.Body{HostStorageSyncRequest: &protocol.HostStorageSyncRequest{SyncGetPrefixes: &storage.GetPrefixesRequest{Tree: tid, Prefixes: [][]byte{[]byte("a"), []byte("b")}, Limit: 10}}}},
		{"storage-iterate", protocol.MessageRequest, protocol.Body{HostStorageSyncRequest: &protocol.HostStorageSyncRequest{SyncIterate: &storage.IterateRequest{Tree: tid, Key: []byte("a"), Prefetch: 10}}}},
		{"storage-response", protocol.MessageResponse, protocol.Body{HostStorageSyncResponse: &protocol.HostStorageSyncResponse{ProofResponse: &storage.ProofResponse{Proof: proof}}}},
		{"local-get", protocol.MessageRequest, protocol.Body{HostLocalStorageGetRequest: &protocol.HostLocalStorageGetRequest{Key: []byte("lk")}}},
		{"local-set", protocol.MessageRequest, protocol.Body{HostLocalStorageSetRequest: &protocol.HostLocalStorageSetRequest{Key: []byte("lk"), Value: bytes.Repeat([]byte{9}, 100)}}},
		{"fetch-block", protocol.MessageRequest, protocol.Body{HostFetchConsensusBlockRequest: &protocol.HostFetchConsensusBlockRequest{Height: 12}}},
		{"fetch-events", protocol.MessageRequest, protocol.Body{HostFetchConsensusEventsRequest: &protocol.HostFetchConsensusEventsRequest{Height: 12, Kind: protocol.EventKindStaking}}},
		{"fetch-batch", protocol.MessageRequest, protocol.Body{HostFetchTxBatchRequest: &protocol.HostFetchTxBatchRequest{Offset: hashPtr("o"), Limit: 100}}},
		{"prove-freshness", protocol.MessageRequest, protocol.Body{HostProveFreshnessRequest: &protocol.HostProveFreshnessRequest{Blob: [32]byte{1}}}},
		{"prove-freshness-response", protocol.MessageResponse, protocol.Body{HostProveFreshnessResponse: &protocol.HostProveFreshnessResponse{SignedTx: stx}}},
		{"identity", protocol.MessageRequest, protocol.Body{HostIdentityRequest: &protocol.HostIdentityRequest{}}},
		{"submit-tx", protocol.MessageRequest, protocol.Body{HostSubmitTxRequest: &protocol.HostSubmitTxRequest{RuntimeID: rtID, Data: []byte("tx"), Wait: true, Prove: true}}},
		{"register-notify", protocol.MessageRequest, protocol.Body{HostRegisterNotifyRequest: &protocol.HostRegisterNotifyRequest{RuntimeBlock: true, RuntimeEvent: &struct {
			Tags [][]byte `json:"tags,omitempty"`
		}{Tags: [][]byte{[]byte("t")}}}}},
		{"endorsement", protocol.MessageRequest, protocol.Body{RuntimeCapabilityTEEUpdateEndorsementRequest: &protocol.RuntimeCapabilityTEEUpdateEndorsementRequest{EndorsedCapabilityTEE: node.EndorsedCapabilityTEE{
			CapabilityTEE: node.CapabilityTEE{Hardware: node.TEEHardwareIntelSGX, RAK: sgRAK.Public(), Attestation: []byte("att")}}}}},
	}
	var out []seed
	for i, b := range bodies {
		out = append(out, seed{b.name, cbor.Marshal(&protocol.Message{ID: uint64(i + 1), MessageType: b.typ, Body: b.body})})
	}
	return out
}

func buildFramesGroup() ([]*target, error) {
	msgs := testMessagesRHP()
	var framed []seed
	for _, m := range msgs {
		framed = append(framed, seed{m.name, frame(m.data)})
	}
	// several frames on one stream
	framed = append(framed, seed{"three-frames", append(append(append([]byte{}, framed[0].data...), framed[1].data...), framed[3].data...)})
	raw := &target{
		name: "frames-read", doc: "input = the byte stream of the connection (4-byte big endian length prefix + CBOR, repeated): 1 at least one message decoded, 2 with a known body type",
		seeds: framed, wantDepth: 2, run: runFrames, cborPercent: 30,
		hot: func([]byte) []int { return []int{0, 1, 2, 3, 4} },
	}
	// hostile prefixes
	for _, l := range []uint32{0, 1, 64<<20 - 1, 64 << 20, 64<<20 + 1, 1<<31 - 1, 1 << 31, 1<<32 - 1} {
		b := make([]byte, 4)
		binary.BigEndian.PutUint32(b, l)
		raw.extra = append(raw.extra, seed{fmt.Sprintf("prefix-%d", l), append(b, msgs[0].data...)})
	}
	for _, m := range msgs {
		if m.name == "info-request" {
			// body -> RuntimeInfoRequest -> local_config is free-form (map[string]any)
			it, _, _ := mut.Parse(m.data)
			for i := 0; i+1 < len(it.Kids); i += 2 {
				if string(m.data[it.Kids[i].HeadEnd:it.Kids[i].End]) != "body" {
					continue
				}
				bodyIt := it.Kids[i+1] // {"RuntimeInfoRequest": {...}}
				inner := bodyIt.Kids[1]
				for _, p := range policyProbes(m.data[inner.Start:inner.End], "local_config") {
					doc := append(append(append([]byte{}, m.data[:inner.Start]...), p.data...), m.data[inner.End:]...)
					raw.extra = append(raw.extra, seed{p.name, frame(doc)})
				}
			}
		}
	}
	withLen := &target{
		name: "frames-read+len", doc: "input = the CBOR message; the harness prepends the matching length prefix: depths as frames-read",
		seeds: msgs, wantDepth: 2, hostile: true,
		run: func(in []byte) outcome { return runFrames(frame(in)) },
	}
	// the connection itself: the untrusted runtime answers the host's first request (the handshake) with the input
	var respSeeds []seed
	for _, m := range msgs {
		if m.name == "info-response" || m.name == "error" || m.name == "empty" {
			respSeeds = append(respSeeds, m)
		}
	}
	handshake := &target{
		name: "rhp-handshake-response", doc: "input = the CBOR message an untrusted runtime sends in response to the host's RuntimeInfoRequest over a real protocol connection (the harness sets the message id to the request's): " +
			"1 InitHost returned an error, 2 the runtime's error body was reported, 3 handshake completed",
		seeds: respSeeds, wantDepth: 1, hostile: true,
		run: runHandshake,
	}
	for _, b := range []string{`{"Error": {}}`, `{"Error": {"module": "", "code": 0}}`, `{"Error": {"module": "rhp", "code": 0, "message": "x"}}`, `{"Error": {"code": 4294967295}}`, `{}`} {
		var body map[string]any
		_ = json.Unmarshal([]byte(b), &body)
		handshake.extra = append(handshake.extra, seed{"response-body-" + b, cbor.Marshal(map[string]any{"id": 0, "message_type": 2, "body": body})})
	}
	return []*target{raw, withLen, handshake}, nil
}

type nopHandler struct{}

func (nopHandler) Handle(context.Context, *protocol.Body) (*protocol.Body, error) {
	return &protocol.Body{Empty: &protocol.Empty{}}, nil
}

// runHandshake lets a real host-side connection perform its handshake against a peer that answers with the input.
// A response is either turned into a result or into an error; "neither" ends in a nil dereference in the caller.
func runHandshake(in []byte) outcome {
	hostEnd, rtEnd := net.Pipe()
	conn, err := protocol.NewConnection(logging.GetLogger("c16/rhp"), rtID, nopHandler{})
	if err != nil {
		return outcome{violSig: "harness", violMsg: err.Error()}
	}
	done, finished := make(chan struct{}), make(chan struct{})
	go func() {
		defer close(done)
		defer rtEnd.Close()
		_ = rtEnd.SetDeadline(time.Now().Add(2 * time.Second))
		var hdr [4]byte
		if _, err := io.ReadFull(rtEnd, hdr[:]); err != nil {
			return
		}
		req := make([]byte, binary.BigEndian.Uint32(hdr[:]))
		if _, err := io.ReadFull(rtEnd, req); err != nil {
			return
		}
		var rm struct {
			ID uint64 `json:"id"`
		}
		_ = cbor.Unmarshal(req, &rm)
		// answer with the input; when it is a CBOR map its "id" is set to the request's so that it is routed to the caller
		out := in
		var generic map[string]any
		if cbor.Unmarshal(in, &generic) == nil && generic != nil {
			generic["id"] = rm.ID
			out = cbor.Marshal(generic)
		}
		_, _ = rtEnd.Write(frame(out))
		// keep the connection open until the host has acted on the response (closing right away races with the host's
		// reader: the result must be a pure function of the input), but not for ever when the host ignores the frame;
		// whatever the host sends meanwhile is drained
		go func() { _, _ = io.Copy(io.Discard, rtEnd) }()
		select {
		case <-finished:
		case <-time.After(300 * time.Millisecond):
		}
	}()
	ctx, cancel := context.WithTimeout(context.Background(), 3*time.Second)
	defer cancel()
	ver, herr := conn.InitHost(ctx, hostEnd, &protocol.HostInfo{ConsensusBackend: "cometbft", ConsensusProtocolVersion: version.Versions.ConsensusProtocol, ConsensusChainContext: "c16"})
	close(finished)
	conn.Close()
	_ = hostEnd.Close()
	<-done
	o := outcome{depth: 1}
	switch {
	case herr == nil && ver == nil:
		o.violSig, o.violMsg = "handshake-neither-result-nor-error", "InitHost returned neither a version nor an error"
	case herr == nil:
		o.depth = 3
		o.digest = "ok " + ver.String()
	default:
		if !strings.Contains(herr.Error(), "context deadline") && !strings.Contains(herr.Error(), "connection closed") {
			o.depth = 2
		}
		o.digest = errDigest(herr)
	}
	return o
}

// ---------------------------------------------------------------------------------------
// Attestation quotes and collateral.

var tdxPolicy = &pcs.QuotePolicy{
	TCBValidityPeriod: 30, MinTCBEvaluationDataNumber: pcs.DefaultMinTCBEvaluationDataNumber,
	FMSPCWhitelist: []string{}, FMSPCBlacklist: []string{}, TDX: &pcs.TdxQuotePolicy{},
}

func verifyStage(err error) int {
	// how far Quote.Verify got, from its error text
	if err == nil {
		return 3
	}
	s := err.Error()
	switch {
	case strings.Contains(s, "PCK certificate chain"), strings.Contains(s, "no PCK certificate chain"), strings.Contains(s, "unexpected certificate chain length"),
		strings.Contains(s, "debug/production"), strings.Contains(s, "blacklisted"), strings.Contains(s, "TEE type"), strings.Contains(s, "mismatched report body"):
		return 0
	}
	return 1 // got past the PCK chain: QE report signature, TCB bundle, quote signature ...
}

func runPCSQuote(tcb *pcs.TCBBundle) func(in []byte) outcome {
	return func(in []byte) outcome {
		var qt pcs.Quote
		if err := qt.UnmarshalBinary(in); err != nil {
			return outcome{digest: errDigest(err)}
		}
		o := outcome{depth: 1}
		hdr := qt.Header()
		_ = fmt.Sprint(hdr.Version(), hdr.TeeType(), hdr.AttestationKeyType(), hdr.ReportBodyLength(), len(hdr.Raw()), qt.Signature().AttestationKeyType())
		vq, err := qt.Verify(tdxPolicy, pcsNow, tcb)
		o.depth += verifyStage(err)
		if o.depth > 3 {
			o.depth = 3
		}
		res := errDigest(err)
		if vq != nil {
			res += fmt.Sprint(vq.Identity, len(vq.ReportData))
		}
		if qs, ok := qt.Signature().(*pcs.QuoteSignatureECDSA_P256); ok {
			pi, perr := qs.VerifyPCK(pcsNow)
			res += fmt.Sprint(perr, pi != nil, qs.CertificationData() != nil)
		}
		// trailing data variant
		var q2 pcs.Quote
		n, err2 := q2.UnmarshalBinaryWithTrailing(in, true)
		o.digest = digestOf(res, n, errDigest(err2))
		return o
	}
}

// quoteFix returns a copy of a (mutated) quote with the signature length field (and the inner
// certification data size of v4 quotes) rewritten to match the actual length, the way an attacker
// would produce a truncated or extended quote that gets past the outer length check.
func quoteFix(in []byte) []byte {
	out := append([]byte{}, in...)
	if len(out) < 48+384+4 {
		return out
	}
	off := 48 + 384
	ver := binary.LittleEndian.Uint16(out[0:])
	if ver == 4 && binary.LittleEndian.Uint32(out[4:]) == 0x81 { // TDX
		off = 48 + 584
	}
	if len(out) < off+4 {
		return out
	}
	binary.LittleEndian.PutUint32(out[off:], uint32(len(out)-off-4))
	if ver == 4 {
		inner := off + 4 + 64 + 64 + 2
		if len(out) >= inner+4 {
			binary.LittleEndian.PutUint32(out[inner:], uint32(len(out)-inner-4))
		}
	}
	return out
}

func quoteHot(in []byte) []int {
	if len(in) < 48+384+4 {
		return nil
	}
	hot := []int{0, 1, 2, 3, 4, 5, 6, 7} // version, attestation key type, tee type
	off := 48 + 384
	ver := binary.LittleEndian.Uint16(in[0:])
	if ver == 4 && binary.LittleEndian.Uint32(in[4:]) == 0x81 {
		off = 48 + 584
	}
	for i := 0; i < 4; i++ {
		hot = append(hot, off+i) // signature length
	}
	p := off + 4 + 64 + 64
	if ver == 4 {
		for i := 0; i < 6; i++ {
			hot = append(hot, p+i) // certification data type + size
		}
		p += 6
	}
	p += 384 + 64
	for i := 0; i < 2; i++ {
		hot = append(hot, p+i) // authentication data size
	}
	if p+2 <= len(in) {
		p += 2 + int(binary.LittleEndian.Uint16(in[p:]))
		for i := 0; i < 6; i++ {
			hot = append(hot, p+i) // certification data type + size
		}
	}
	return hot
}

func buildQuotesGroup() ([]*target, error) {
	fx := pcsFixtures()
	var tgs []*target
	// (a) raw quotes, verified with the good collateral of the SGX fixture
	var qseeds []seed
	for _, f := range fx {
		qseeds = append(qseeds, seed{f.name, f.quote})
	}
	for _, n := range []string{"quote_v3_ecdsa_p256_eppid.bin", "quote_v4_tdx_ecdsa_p256_out_of_date.bin"} {
		qseeds = append(qseeds, seed{n, readRepo("common/sgx/pcs/testdata/" + n)})
	}
	// certificate chains in which ONE block carries another PEM type (a CRL, a renamed certificate block - same length, so
	// no length field changes): the decoders walk the blocks of a chain and must come to an end on every one of them
	for _, s := range append([]seed{}, qseeds...) {
		for i, v := range pemRelabelled(s.data) {
			qseeds = append(qseeds, seed{fmt.Sprintf("%s+pem-block-%d-relabelled", s.name, i), v})
		}
	}
	sgxBundle := fx[0].bundle
	base := &target{
		name: "pcs-quote", doc: "1 quote parsed, 2 Verify got past the PCK certificate chain, 3 Verify got past QE report / TCB checks or accepted",
		seeds: qseeds[:1], extra: qseeds[1:], wantDepth: 3, run: runPCSQuote(&sgxBundle), hot: quoteHot, cborPercent: -1,
	}
	tgs = append(tgs, base)
	tgs = append(tgs, &target{
		name: "pcs-quote+sizefix", doc: "as pcs-quote after the harness rewrites the signature-length (and v4 certification-data size) field to match the input length",
		seeds: qseeds[:1], extra: qseeds[1:], wantDepth: 3, hot: quoteHot, cborPercent: -1,
		run: func(in []byte) outcome {
			fixed := quoteFix(in)
			o := base.run(fixed)
			o.note = "quote=" + hexShort(fixed)
			return o
		},
	})
	// (b) TCB bundle (JSON and CBOR) verified through a QuoteBundle with the good quote
	bundleRun := func(decode func([]byte, *pcs.TCBBundle) error, marshal func(*pcs.TCBBundle) ([]byte, error)) func([]byte) outcome {
		return func(in []byte) outcome {
			var b pcs.TCBBundle
			if err := decode(in, &b); err != nil {
				return outcome{digest: errDigest(err)}
			}
			o := outcome{depth: 1}
			m1, err := marshal(&b)
			if err != nil {
				o.rt = fmt.Sprintf("accepted TCB bundle does not marshal: %v", err)
			} else {
				var b2 pcs.TCBBundle
				if err := decode(m1, &b2); err != nil {
					o.rt = fmt.Sprintf("re-encoded TCB bundle is rejected: %v", err)
				} else if m2, _ := marshal(&b2); !bytes.Equal(m1, m2) {
					o.rt = "TCB bundle: second encoding differs from the first"
				}
			}
			qb := pcs.QuoteBundle{Quote: fx[0].quote, TCB: b}
			_, verr := qb.Verify(tdxPolicy, pcsNow)
			if verr == nil {
				o.depth = 3
			} else if !strings.Contains(verr.Error(), "certificate") {
				o.depth = 2 // got past the TCB certificate chain to the signed TCB info / QE identity
			}
			o.digest = digestOf(m1, errDigest(verr))
			return o
		}
	}
	jb := must(json.Marshal(&sgxBundle))
	var jbExtra, cbExtra []seed
	for i, certs := range pemRelabelled(sgxBundle.Certificates) {
		b := sgxBundle
		b.Certificates = certs
		jbExtra = append(jbExtra, seed{fmt.Sprintf("sgx-bundle+pem-block-%d-relabelled", i), must(json.Marshal(&b))})
		cbExtra = append(cbExtra, seed{fmt.Sprintf("sgx-bundle+pem-block-%d-relabelled", i), cbor.Marshal(&b)})
	}
	tgs = append(tgs, &target{name: "pcs-tcbbundle-json", doc: "1 JSON decoded, 2 verification with the good quote got past the TCB certificate chain, 3 accepted",
		seeds: []seed{{"sgx-bundle", jb}}, extra: jbExtra, wantDepth: 3, cborPercent: -1,
		run: bundleRun(func(b []byte, v *pcs.TCBBundle) error { return json.Unmarshal(b, v) }, func(v *pcs.TCBBundle) ([]byte, error) { return json.Marshal(v) })})
	tgs = append(tgs, &target{name: "pcs-tcbbundle-cbor", doc: "1 CBOR decoded, 2 verification with the good quote got past the TCB certificate chain, 3 accepted",
		seeds: []seed{{"sgx-bundle", cbor.Marshal(&sgxBundle)}}, extra: cbExtra, wantDepth: 3, hostile: true,
		run: bundleRun(func(b []byte, v *pcs.TCBBundle) error { return cbor.Unmarshal(b, v) }, func(v *pcs.TCBBundle) ([]byte, error) { return cbor.Marshal(v), nil })})
	// (c) quote bundles
	var qbSeeds, qbJSON []seed
	for _, f := range fx {
		qb := pcs.QuoteBundle{Quote: f.quote, TCB: f.bundle}
		qbSeeds = append(qbSeeds, seed{f.name, cbor.Marshal(&qb)})
		qbJSON = append(qbJSON, seed{f.name, must(json.Marshal(&qb))})
	}
	qbRun := func(decode func([]byte, *pcs.QuoteBundle) error) func([]byte) outcome {
		return func(in []byte) outcome {
			var qb pcs.QuoteBundle
			if err := decode(in, &qb); err != nil {
				return outcome{digest: errDigest(err)}
			}
			o := outcome{depth: 1}
			m1, rt := roundTrip(&qb)
			o.rt = rt
			vq, err := qb.Verify(tdxPolicy, pcsNow)
			var qt pcs.Quote
			if qt.UnmarshalBinary(qb.Quote) == nil {
				o.depth = 2 + min(verifyStage(err), 1)
			}
			o.digest = digestOf(m1, errDigest(err), vq != nil)
			return o
		}
	}
	tgs = append(tgs, &target{name: "pcs-quotebundle-cbor", doc: "1 CBOR decoded, 2 embedded quote parsed, 3 Verify got past the PCK certificate chain", seeds: qbSeeds[:1], extra: qbSeeds[1:], wantDepth: 3, hostile: true,
		run: qbRun(func(b []byte, v *pcs.QuoteBundle) error { return cbor.Unmarshal(b, v) })})
	tgs = append(tgs, &target{name: "pcs-quotebundle-json", doc: "1 JSON decoded, 2 embedded quote parsed, 3 Verify got past the PCK certificate chain", seeds: qbJSON[:1], extra: qbJSON[1:], wantDepth: 3, cborPercent: -1,
		run: qbRun(func(b []byte, v *pcs.QuoteBundle) error { return json.Unmarshal(b, v) })})
	// (d) IAS
	var avrSeeds, avrBundleSeeds []seed
	for _, v := range []int{4, 5} {
		b := iasBundle(v)
		avrSeeds = append(avrSeeds, seed{fmt.Sprintf("avr-v%d", v), b.Body})
		avrBundleSeeds = append(avrBundleSeeds, seed{fmt.Sprintf("avr-bundle-v%d", v), cbor.Marshal(b)})
	}
	tgs = append(tgs, &target{name: "ias-avr", doc: "1 JSON parsed (error comes from validation, not the JSON decoder), 2 AVR accepted, 3 embedded quote parsed", seeds: avrSeeds, wantDepth: 3, cborPercent: -1,
		run: func(in []byte) outcome {
			avr, err := ias.UnsafeDecodeAVR(in)
			if err != nil {
				o := outcome{digest: errDigest(err)}
				if !strings.Contains(err.Error(), "failed to parse JSON") {
					o.depth = 1
				}
				return o
			}
			o := outcome{depth: 2}
			qt, qerr := avr.Quote()
			if qerr == nil {
				o.depth = 3
				_ = qt.Verify()
				// reserved bytes are not preserved, so compare the decoded values
				var q2 ias.Quote
				if mb, err := qt.MarshalBinary(); err != nil || q2.UnmarshalBinary(mb) != nil || q2 != *qt {
					o.rt = fmt.Sprintf("embedded quote does not survive MarshalBinary/UnmarshalBinary (%v)", err)
				}
			}
			j1, jerr := json.Marshal(avr)
			o.digest = digestOf(j1, fmt.Sprint(jerr), errDigest(qerr), avr.ISVEnclaveQuoteStatus.String(), avr.Timestamp)
			return o
		}})
	iasPolicy := &ias.QuotePolicy{AllowedQuoteStatuses: []ias.ISVEnclaveQuoteStatus{ias.QuoteSwHardeningNeeded}, GIDBlacklist: []uint32{7}}
	tgs = append(tgs, &target{name: "ias-avrbundle", doc: "1 CBOR decoded, 2 Open got past the certificate chain and signature, 3 opened", seeds: avrBundleSeeds, wantDepth: 3, hostile: true,
		run: func(in []byte) outcome {
			var b ias.AVRBundle
			if err := cbor.Unmarshal(in, &b); err != nil {
				return outcome{digest: errDigest(err)}
			}
			o := outcome{depth: 1}
			m1, rt := roundTrip(&b)
			o.rt = rt
			avr, err := b.Open(iasPolicy, ias.IntelTrustRoots, iasNow)
			_, err2 := b.Open(nil, ias.IntelTrustRoots, iasNow)
			switch {
			case err == nil:
				o.depth = 3
			case !strings.Contains(err.Error(), "certificate") && !strings.Contains(err.Error(), "signature") && !strings.Contains(err.Error(), "PEM"):
				o.depth = 2
			}
			o.digest = digestOf(m1, errDigest(err), errDigest(err2), avr != nil)
			return o
		}})
	return tgs, nil
}

// ---------------------------------------------------------------------------------------
// Descriptor verification entry points (pure functions over signed blobs).

type rtLookup struct {
	rts map[common.Namespace]*registry.Runtime
}

func (l *rtLookup) get(id common.Namespace) (*registry.Runtime, error) {
	if rt, ok := l.rts[id]; ok {
		return rt, nil
	}
	return nil, registry.ErrNoSuchRuntime
}
func (l *rtLookup) Runtime(_ ctxT, id common.Namespace) (*registry.Runtime, error) { return l.get(id) }
func (l *rtLookup) SuspendedRuntime(_ ctxT, id common.Namespace) (*registry.Runtime, error) {
	return nil, registry.ErrNoSuchRuntime
}
func (l *rtLookup) AnyRuntime(_ ctxT, id common.Namespace) (*registry.Runtime, error) {
	return l.get(id)
}
func (l *rtLookup) AllRuntimes(ctxT) ([]*registry.Runtime, error) { return nil, nil }
func (l *rtLookup) Runtimes(ctxT) ([]*registry.Runtime, error)    { return nil, nil }

type noNodes struct{}

func (noNodes) NodeBySubKey(ctxT, signature.PublicKey) (*node.Node, error) {
	return nil, registry.ErrNoSuchNode
}
func (noNodes) Nodes(ctxT) ([]*node.Node, error)                               { return nil, nil }
func (noNodes) GetEntityNodes(ctxT, signature.PublicKey) ([]*node.Node, error) { return nil, nil }

var (
	c16Logger = logging.GetLogger("c16")
	regParams = &registry.ConsensusParameters{
		MaxNodeExpiration: 20, EnableRuntimeGovernanceModels: map[registry.RuntimeGovernanceModel]bool{registry.GovernanceEntity: true, registry.GovernanceRuntime: true},
		TEEFeatures: &node.TEEFeatures{SGX: node.TEEFeaturesSGX{PCS: true, SignedAttestations: true, DefaultMaxAttestationAge: 1200, TDX: true}, FreshnessProofs: true},
	}
	verifyHeight = uint64(1000)
)

func runVerifyNode(lookup *rtLookup) func(in []byte) outcome {
	ent := testEntity()
	return func(in []byte) outcome {
		var sn node.MultiSignedNode
		if err := cbor.Unmarshal(in, &sn); err != nil {
			return outcome{digest: errDigest(err)}
		}
		o := outcome{depth: 1}
		var inner node.Node
		opened := sn.Open(registry.RegisterNodeSignatureContext, &inner) == nil
		if opened {
			o.depth = 2
		}
		res := ""
		for _, mode := range []struct{ genesis, sanity bool }{{false, false}, {false, true}} {
			n, rts, err := registry.VerifyRegisterNodeArgs(bg, regParams, c16Logger, &sn, ent, pcsNow, verifyHeight, mode.genesis, mode.sanity, 5, lookup, noNodes{}, true)
			res += fmt.Sprint(errDigest(err), len(rts), n != nil, "|")
			if err == nil {
				o.depth = 3
				_, rt := roundTrip(n)
				if rt != "" {
					o.rt = rt
				}
				var rl []*registry.Runtime
				rl = append(rl, rts...)
				_ = registry.StakeThresholdsForNode(n, rl)
				_ = registry.VerifyNodeUpdate(bg, c16Logger, testNode(nil), n, lookup, 5)
			}
		}
		// TEE capability checks run even when registration is rejected later on
		if opened {
			for _, rt := range inner.Runtimes {
				if rt == nil || rt.Capabilities.TEE == nil {
					continue
				}
				if reg, err := lookup.get(rt.ID); err == nil {
					err := registry.VerifyNodeRuntimeEnclaveIDs(c16Logger, inner.ID, rt, reg, regParams.TEEFeatures, pcsNow, verifyHeight, true)
					res += "tee:" + errDigest(err)
					if err == nil || !strings.Contains(err.Error(), "malformed") {
						if o.depth < 3 {
							o.depth = 3
						}
					}
				}
			}
		}
		classify(&o)
		o.digest = digestOf(res)
		return o
	}
}

func buildDescriptorsGroup() ([]*target, error) {
	rtPlain := testRuntime(registry.KindCompute, node.TEEHardwareInvalid)
	rtSGX := testRuntime(registry.KindCompute, node.TEEHardwareIntelSGX)
	km := testRuntime(registry.KindKeyManager, node.TEEHardwareIntelSGX)
	lookupPlain := &rtLookup{rts: map[common.Namespace]*registry.Runtime{rtPlain.ID: rtPlain, km.ID: km}}
	lookupSGX := &rtLookup{rts: map[common.Namespace]*registry.Runtime{rtSGX.ID: rtSGX, km.ID: km}}
	var tgs []*target

	signedNode := func(n *node.Node) []byte {
		return cbor.Marshal(must(node.MultiSignNode(nodeSigners, registry.RegisterNodeSignatureContext, n)))
	}
	vn := &target{name: "verify-node", doc: "input = MultiSignedNode: 1 envelope decoded, 2 signatures ok + descriptor decoded, 3 VerifyRegisterNodeArgs accepted",
		seeds: []seed{{"node", signedNode(testNode(nil))}}, wantDepth: 3, hostile: true, run: runVerifyNode(lookupPlain)}
	tgs = append(tgs, vn, signedVariant(vn, seedsOf[node.Node]("node", testNode(nil)), 3, multiSignNodeBlob))
	vt := &target{name: "verify-node-tee", doc: "input = MultiSignedNode for an SGX runtime: 1 envelope decoded, 2 signatures ok, 3 attestation decoded and quote verification ran",
		seeds: []seed{{"node-pcs", signedNode(testNode(pcsAttestation()))}, {"node-ias", signedNode(testNode(iasAttestation()))}}, wantDepth: 3, hostile: true, run: runVerifyNode(lookupSGX)}
	tgs = append(tgs, vt, signedVariant(vt, seedsOf[node.Node]("node-pcs", testNode(pcsAttestation()), "node-ias", testNode(iasAttestation())), 3, multiSignNodeBlob))

	// CapabilityTEE.Verify on its own (attestation + constraints are both untrusted blobs)
	constraints := sgxConstraints()
	capSeeds := seedsOf[node.CapabilityTEE](
		"pcs", &node.CapabilityTEE{Hardware: node.TEEHardwareIntelSGX, RAK: sgRAK.Public(), Attestation: pcsAttestation()},
		"ias", &node.CapabilityTEE{Hardware: node.TEEHardwareIntelSGX, RAK: sgRAK.Public(), Attestation: iasAttestation()})
	tgs = append(tgs, cborTarget("verify-capability-tee", "1 decoded, 2 attestation and constraints decoded, 3 quote verification ran to the end", capSeeds, 3,
		func(v *node.CapabilityTEE, o *outcome) string {
			err := v.Verify(regParams.TEEFeatures, pcsNow, verifyHeight, constraints, sgNode.Public(), true)
			switch {
			case err == nil, err == node.ErrRAKHashMismatch, err == node.ErrBadEnclaveIdentity:
				o.depth = 3
			case !strings.Contains(err.Error(), "malformed"):
				o.depth = 2
			}
			return errDigest(err)
		}))
	// (further corpus entries: the legacy unversioned IAS-only form, and version 1 constraints whose policy has no PCS part)
	scExtra := []seed{{"v1-policy-empty", cbor.Marshal(map[string]any{"v": 1, "enclaves": []any{}, "policy": map[string]any{}, "max_attestation_age": 1200})},
		{"v1-policy-ias-only", cbor.Marshal(map[string]any{"v": 1, "enclaves": []any{}, "policy": map[string]any{"ias": map[string]any{}}})}}
	scExtra = append(scExtra, seed{"v0-legacy-ias", readRepo("common/node/testdata/sgx_constraints_v0.bin")})
	scTarget := cborTarget("verify-sgx-constraints", "input = the runtime's TEE constraints blob, validated for both consensus feature versions and checked against a good attestation: 1 decoded, 2 ValidateBasic ok, 3 quote verification ran",
		seedsOf[node.SGXConstraints]("v1", cbor.RawMessage(constraints)), 3,
		func(v *node.SGXConstraints, o *outcome) string {
			// before and after feature version 26.1 (what a chain that has not run the upgrade yet does)
			_ = v.ValidateBasic(regParams.TEEFeatures, false)
			_ = v.ValidateBasic(nil, false)
			if err := v.ValidateBasic(regParams.TEEFeatures, true); err != nil {
				return err.Error()
			}
			o.depth = 2
			cap := node.CapabilityTEE{Hardware: node.TEEHardwareIntelSGX, RAK: sgRAK.Public(), Attestation: pcsAttestation()}
			err := cap.Verify(regParams.TEEFeatures, pcsNow, verifyHeight, cbor.Marshal(v), sgNode.Public(), true)
			if err == nil || err == node.ErrRAKHashMismatch || err == node.ErrBadEnclaveIdentity {
				o.depth = 3
			}
			return errDigest(err)
		})
	scTarget.extra = append(scTarget.extra, scExtra...)
	tgs = append(tgs, scTarget)

	// Entities.
	signedEnt := cbor.Marshal(must(entity.SignEntity(sgEntity, registry.RegisterEntitySignatureContext, testEntity())))
	ve := cborTarget("verify-entity", "input = SignedEntity: 1 envelope decoded, 3 VerifyRegisterEntityArgs accepted", []seed{{"entity", signedEnt}}, 3,
		func(v *entity.SignedEntity, o *outcome) string {
			e, err := registry.VerifyRegisterEntityArgs(c16Logger, v, false, false)
			_, err2 := registry.VerifyRegisterEntityArgs(c16Logger, v, true, true)
			if err == nil {
				o.depth = 3
				_, rt := roundTrip(e)
				if rt != "" {
					o.rt = rt
				}
			}
			return fmt.Sprint(errDigest(err), errDigest(err2))
		})
	tgs = append(tgs, ve, signedVariant(ve, seedsOf[entity.Entity]("entity", testEntity()), 3, func(blob []byte) []byte {
		sig := must(signature.Sign(sgEntity, registry.RegisterEntitySignatureContext, blob))
		return cbor.Marshal(&entity.SignedEntity{Signed: signature.Signed{Blob: blob, Signature: *sig}})
	}))

	// Runtimes.
	tgs = append(tgs, cborTarget("verify-runtime", "input = Runtime descriptor: 1 decoded, 2 ValidateBasic ok, 3 VerifyRuntime accepted",
		seedsOf[registry.Runtime]("compute", rtPlain, "compute-sgx", rtSGX, "keymanager", km), 3,
		func(v *registry.Runtime, o *outcome) string {
			if v.ValidateBasic(false) == nil {
				o.depth = 2
			}
			res := ""
			for _, opt := range []registry.VerifyRuntimeOptions{{IsFeatureVersion261: true}, {IsGenesis: true}, {IsSanityCheck: true, IsFeatureVersion261: true}, {}} {
				err := registry.VerifyRuntime(regParams, c16Logger, v, 5, opt)
				res += errDigest(err) + "|"
				if err == nil {
					o.depth = 3
				}
			}
			if o.depth == 3 {
				// what the registry application does with a descriptor that passed VerifyRuntime
				res += errDigest(registry.VerifyRegisterComputeRuntimeArgs(bg, c16Logger, v, lookupSGX))
				res += errDigest(registry.VerifyRuntimeNew(c16Logger, v, 5, regParams, false))
				res += errDigest(registry.VerifyRuntimeUpdate(c16Logger, rtPlain, v, 5, regParams, true))
				_ = registry.StakeThresholdsForRuntime(v)
				_, _ = v.StakingAddress()
				_ = v.ActiveDeployment(5)
				_ = v.NextDeployment(5)
			}
			_ = v.String()
			return res
		}))
	return tgs, nil
}

// signTxValue returns a signed transaction value for embedding into other structures.
func signTxValue() (*txSigned, error) {
	return txSign(sgTx, testTransactions()[0].tx)
}

var _ = time.Second

// pemRelabelled returns copies of data in which the BEGIN and END lines of ONE PEM block (the first, the last) name
// another type of the same length.
func pemRelabelled(data []byte) [][]byte {
	begin, end := []byte("-----BEGIN CERTIFICATE-----"), []byte("-----END CERTIFICATE-----")
	var out [][]byte
	var starts []int
	for off := 0; ; {
		i := bytes.Index(data[off:], begin)
		if i < 0 {
			break
		}
		starts = append(starts, off+i)
		off += i + len(begin)
	}
	pick := map[int]bool{}
	if len(starts) > 0 {
		pick[0], pick[len(starts)-1] = true, true
	}
	for n, st := range starts {
		if !pick[n] {
			continue
		}
		e := bytes.Index(data[st:], end)
		if e < 0 {
			continue
		}
		c := append([]byte{}, data...)
		copy(c[st:], "-----BEGIN CERTIFICATX-----")
		copy(c[st+e:], "-----END CERTIFICATX-----")
		out = append(out, c)
	}
	return out
}
