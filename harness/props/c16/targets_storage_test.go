package c16

import (
	"bytes"
	"encoding/binary"
	"errors"
	"fmt"
	"io"
	"regexp"
	"strings"

	"github.com/golang/snappy"
	"pgregory.net/rapid"

	"github.com/oasisprotocol/oasis-core/go/common"
	"github.com/oasisprotocol/oasis-core/go/common/cbor"
	"github.com/oasisprotocol/oasis-core/go/common/crypto/hash"
	"github.com/oasisprotocol/oasis-core/go/storage/mkvs"
	"github.com/oasisprotocol/oasis-core/go/storage/mkvs/checkpoint"
	dbApi "github.com/oasisprotocol/oasis-core/go/storage/mkvs/db/api"
	"github.com/oasisprotocol/oasis-core/go/storage/mkvs/node"
	"github.com/oasisprotocol/oasis-core/go/storage/mkvs/syncer"
	"github.com/oasisprotocol/oasis-core/go/storage/mkvs/writelog"

	"verifharness/kv"
	"verifharness/mut"
)

// ---------------------------------------------------------------------------------------
// Honest trees and proofs.

type namedProof struct {
	name  string
	proof *syncer.Proof
}

type builtTree struct {
	ndb  dbApi.NodeDB
	root node.Root
	tree mkvs.Tree
	keys [][]byte
}

func buildTree(keys, values [][]byte) (*builtTree, error) {
	ndb, err := kv.OpenDB("badger", "", true)
	if err != nil {
		return nil, err
	}
	tree := mkvs.New(nil, ndb, node.RootTypeState)
	for i, k := range keys {
		if err := tree.Insert(bg, k, values[i]); err != nil {
			return nil, err
		}
	}
	_, rh, err := tree.Commit(bg, kv.Namespace, 1)
	if err != nil {
		return nil, err
	}
	tree.Close()
	root := kv.Root(1, node.RootTypeState, rh)
	if err := ndb.Finalize([]node.Root{root}); err != nil {
		return nil, err
	}
	return &builtTree{ndb: ndb, root: root, tree: mkvs.NewWithRoot(nil, ndb, root), keys: keys}, nil
}

func smallTreeContents() (keys, values [][]byte) {
	for i := 0; i < 40; i++ {
		k := []byte(fmt.Sprintf("key-%02d", i))
		if i%5 == 0 {
			k = append(k, bytes.Repeat([]byte{0xa5}, i)...)
		}
		keys = append(keys, k)
		values = append(values, bytes.Repeat([]byte{byte(i)}, i*3%50))
	}
	// prefix-related keys (internal nodes that carry a leaf)
	for _, k := range []string{"", "k", "ke", "key", "key-", "\x00", "\x00\x00", "\xff", "\xff\xff\x7f"} {
		keys = append(keys, []byte(k))
		values = append(values, []byte("p:"+k))
	}
	return
}

var (
	proofSeedCache []namedProof
	proofSeedErr   error
	proofSeedDone  bool
)

// proofSeeds returns honest proofs of a small tree (both proof versions, all three query kinds)
// and of a chain-shaped tree deeper than the verifier's limit.
func proofSeeds() ([]namedProof, error) {
	if proofSeedDone {
		return proofSeedCache, proofSeedErr
	}
	proofSeedDone = true
	keys, values := smallTreeContents()
	bt, err := buildTree(keys, values)
	if err != nil {
		proofSeedErr = err
		return nil, err
	}
	var out []namedProof
	add := func(name string, rsp *syncer.ProofResponse, err error) {
		if err != nil {
			proofSeedErr = fmt.Errorf("%s: %w", name, err)
			return
		}
		p := rsp.Proof
		out = append(out, namedProof{name, &p})
	}
	tid := syncer.TreeID{Root: bt.root, Position: bt.root.Hash}
	for v := uint16(0); v <= 1; v++ {
		r, err := bt.tree.SyncGet(bg, &syncer.GetRequest{Tree: tid, Key: []byte("key-07"), ProofVersion: v})
		add(fmt.Sprintf("get-v%d", v), r, err)
		r, err = bt.tree.SyncGet(bg, &syncer.GetRequest{Tree: tid, Key: []byte("key"), IncludeSiblings: true, ProofVersion: v})
		add(fmt.Sprintf("get-siblings-v%d", v), r, err)
		r, err = bt.tree.SyncGet(bg, &syncer.GetRequest{Tree: tid, Key: []byte("absent"), ProofVersion: v})
		add(fmt.Sprintf("get-absent-v%d", v), r, err)
		r, err = bt.tree.SyncGetPrefixes(bg, &syncer.GetPrefixesRequest{Tree: tid, Prefixes: [][]byte{[]byte("key-1")}, Limit: 8, ProofVersion: v})
		add(fmt.Sprintf("prefixes-v%d", v), r, err)
		r, err = bt.tree.SyncIterate(bg, &syncer.IterateRequest{Tree: tid, Key: []byte("key-2"), Prefetch: 6, ProofVersion: v})
		add(fmt.Sprintf("iterate-v%d", v), r, err)
	}
	proofSeedCache = out
	return out, proofSeedErr
}

// deepProof is the honest proof for the last key of a chain-shaped tree (every key a prefix of the
// next) with n keys: its nesting exceeds the verifier's documented limit of 128 for n > ~130.
func deepProof(n int, v uint16) (*syncer.Proof, error) {
	var keys, values [][]byte
	for i := 0; i < n; i++ {
		keys = append(keys, bytes.Repeat([]byte{0xff}, i))
		values = append(values, []byte{byte(i)})
	}
	bt, err := buildTree(keys, values)
	if err != nil {
		return nil, err
	}
	defer bt.ndb.Close()
	defer bt.tree.Close()
	r, err := bt.tree.SyncGet(bg, &syncer.GetRequest{Tree: syncer.TreeID{Root: bt.root, Position: bt.root.Hash}, Key: keys[n-1], ProofVersion: v})
	if err != nil {
		return nil, err
	}
	return &r.Proof, nil
}

// chainEntries builds the entries of a proof that is a chain of n internal nodes (each the left
// child of the previous one) ending in a leaf: 8 bytes per level once CBOR encoded.
func chainEntries(n int, v uint16) [][]byte {
	internal := []byte{0x01, node.PrefixInternalNode, 0x01, 0x00, 0x00, node.PrefixNilNode} // full entry, internal, 1-bit label 0, no leaf
	leaf := []byte{0x01, node.PrefixLeafNode, 0x01, 0x00, 'k', 0x01, 0x00, 0x00, 0x00, 'v'}
	var entries [][]byte
	for i := 0; i < n; i++ {
		entries = append(entries, internal)
		if v == 1 {
			entries = append(entries, nil) // leaf child
		}
	}
	entries = append(entries, leaf)
	for i := 0; i < n; i++ {
		entries = append(entries, nil) // right children, innermost first
	}
	return entries
}

// ptrDepth is the nesting depth of a verified subtree, counted like the verifier counts it (the
// root entry is at depth 0).
func ptrDepth(p *node.Pointer) int {
	if p == nil || p.Node == nil {
		return 0
	}
	n, ok := p.Node.(*node.InternalNode)
	if !ok {
		return 0
	}
	d := 0
	for _, c := range []*node.Pointer{n.LeafNode, n.Left, n.Right} {
		if c == nil {
			continue
		}
		if cd := 1 + ptrDepth(c); cd > d {
			d = cd
		}
	}
	return d
}

var gotRootRe = regexp.MustCompile(`bad root \(expected: [0-9a-f]{64} got: ([0-9a-f]{64})\)`)

// maxProofDepth is the verifier's documented nesting limit (syncer/proof.go).
const maxProofDepth = 128

// verifyProofOracle runs both verifier entry points on p with a random expected root, with the
// proof's own root, and (when the verifier reports which root the entries hash to) with that root.
func verifyProofOracle(p *syncer.Proof, rnd hash.Hash, o *outcome) string {
	var pv syncer.ProofVerifier
	_, eA := pv.VerifyProof(bg, rnd, p)
	_, eA2 := pv.VerifyProofToWriteLog(bg, rnd, p)
	if eA == nil || eA2 == nil {
		if !p.UntrustedRoot.Equal(&rnd) {
			o.violSig, o.violMsg = "accept", fmt.Sprintf("proof verified against the unrelated expected root %s (untrusted root %s)", rnd, p.UntrustedRoot)
		}
	}
	root := p.UntrustedRoot
	ptr, eB := pv.VerifyProof(bg, root, p)
	wl, eB2 := pv.VerifyProofToWriteLog(bg, root, p)
	if (eB == nil) != (eB2 == nil) {
		o.violSig, o.violMsg = "inconsistent", fmt.Sprintf("VerifyProof err=%v but VerifyProofToWriteLog err=%v", eB, eB2)
	}
	res := fmt.Sprint(eA, "|", eB)
	if eB != nil {
		if reachedHashCheck(eB) && o.depth < 2 {
			o.depth = 2
		}
		m := gotRootRe.FindStringSubmatch(eB.Error())
		if m == nil {
			return res
		}
		// The entries are well formed and hash to m[1]: a prover can always claim that root.
		var got hash.Hash
		if err := got.UnmarshalHex(m[1]); err != nil {
			return res
		}
		p2 := *p
		p2.UntrustedRoot = got
		var eC, eC2 error
		ptr, eC = pv.VerifyProof(bg, got, &p2)
		wl, eC2 = pv.VerifyProofToWriteLog(bg, got, &p2)
		if eC != nil || eC2 != nil {
			o.violSig, o.violMsg = "inconsistent", fmt.Sprintf("verifier says the entries hash to %s but rejects them for that root: %v / %v", got, eC, eC2)
			return res
		}
		res += "|recheck ok"
	}
	o.depth = 3
	if d := ptrDepth(ptr); d > maxProofDepth {
		o.violSig, o.violMsg = "depth", fmt.Sprintf("verifier accepted a proof nested %d levels deep (documented limit %d)", d, maxProofDepth)
	}
	return res + fmt.Sprintf("|accepted depth=%d wl=%d", ptrDepth(ptr), len(wl))
}

func runProofBytes(in []byte) outcome {
	var p syncer.Proof
	if err := cbor.Unmarshal(in, &p); err != nil {
		return outcome{digest: errDigest(err)}
	}
	o := outcome{depth: 1}
	m1, rt := roundTrip(&p)
	o.rt = rt
	o.digest = digestOf(m1, verifyProofOracle(&p, hash.NewFromBytes(in), &o))
	return o
}

func buildProofsGroup() ([]*target, error) {
	ps, err := proofSeeds()
	if err != nil {
		return nil, err
	}
	var seeds []seed
	for _, p := range ps {
		seeds = append(seeds, seed{p.name, cbor.Marshal(p.proof)})
	}
	// generated chains below the limit are valid seeds too
	for _, v := range []uint16{0, 1} {
		ch := &syncer.Proof{V: v, Entries: chainEntries(100, v)}
		seeds = append(seeds, seed{fmt.Sprintf("chain-100-v%d", v), cbor.Marshal(ch)})
	}
	tg := &target{
		name: "proof-verify", doc: "1 proof decoded, 2 entries well formed: verification reached the root hash comparison, 3 accepted (for the root the entries hash to)",
		seeds: seeds, wantDepth: 2, hostile: true, run: runProofBytes,
	}
	tg.gen = genProof(ps)
	// deep honest proofs and deep chains: must be rejected (depth marker); no wantDepth
	for _, v := range []uint16{0, 1} {
		dp, err := deepProof(150, v)
		if err != nil {
			return nil, err
		}
		tg.extra = append(tg.extra, seed{fmt.Sprintf("honest-deep-150-v%d", v), cbor.Marshal(dp)})
		for _, n := range []int{127, 128, 129, 130, 200, 1000, 5000} {
			ch := &syncer.Proof{V: v, Entries: chainEntries(n, v)}
			tg.extra = append(tg.extra, seed{fmt.Sprintf("chain-%d-v%d", n, v), cbor.Marshal(ch)})
		}
	}
	return []*target{tg}, nil
}

// genProof is the structured generator of the proof target: entry-level mutation of an honest proof.
func genProof(ps []namedProof) func(t *rapid.T) ([]byte, string, []string) {
	return func(t *rapid.T) ([]byte, string, []string) {
		src := mut.Pick(t, "proof", ps)
		p := &syncer.Proof{V: src.proof.V, UntrustedRoot: src.proof.UntrustedRoot}
		for _, e := range src.proof.Entries {
			if e == nil {
				p.Entries = append(p.Entries, nil)
			} else {
				p.Entries = append(p.Entries, append([]byte{}, e...))
			}
		}
		var kinds []string
		nm := 1 + mut.Uniform(t, "nmut", 3)
		for i := 0; i < nm && len(p.Entries) > 0; i++ {
			idx := mut.Uniform(t, "idx", len(p.Entries))
			kind := mut.Pick(t, "pkind", []string{"entry-bytes", "entry-bytes", "entry-bytes", "drop", "dup", "swap", "nil", "empty", "hash-entry", "type-byte", "kind-byte", "chain", "version", "root",
				"truncate-proof", "splice-entry", "nest-entry"})
			kinds = append(kinds, kind)
			e := p.Entries[idx]
			switch kind {
			case "entry-bytes":
				if len(e) == 0 {
					continue
				}
				// positions 0..7 hold the entry type, node kind and the length fields
				ne, k := mut.Bytes(t, e, mut.Opts{Hot: []int{0, 1, 2, 3, 4, 5, 6, 7, len(e) - 1}})
				kinds[len(kinds)-1] = "entry-bytes:" + k
				p.Entries[idx] = ne
			case "drop":
				p.Entries = append(p.Entries[:idx], p.Entries[idx+1:]...)
			case "dup":
				times := mut.Pick(t, "times", []int{1, 1, 2, 200})
				for j := 0; j < times; j++ {
					p.Entries = append(p.Entries[:idx+1], p.Entries[idx:]...)
				}
			case "swap":
				j := mut.Uniform(t, "j", len(p.Entries))
				p.Entries[idx], p.Entries[j] = p.Entries[j], p.Entries[idx]
			case "nil":
				p.Entries[idx] = nil
			case "empty":
				p.Entries[idx] = []byte{}
			case "hash-entry":
				h := hash.NewFromBytes([]byte{byte(idx)})
				p.Entries[idx] = append([]byte{0x02}, h[:]...)
			case "type-byte":
				if len(e) > 0 {
					e[0] = mut.Pick(t, "tb", []byte{0, 1, 2, 3, 0xff})
				}
			case "kind-byte":
				if len(e) > 1 {
					e[1] = mut.Pick(t, "kb", []byte{0, 1, 2, 3, 0xff})
				}
			case "chain":
				n := mut.Pick(t, "chain", []int{1, 2, 64, 126, 127, 128, 129, 130, 131, 256, 2000, 7000})
				ch := chainEntries(n, p.V)
				if mut.Uniform(t, "whole", 2) == 0 {
					p.Entries = ch
				} else { // graft the chain in place of one entry
					rest := append([][]byte{}, p.Entries[idx+1:]...)
					p.Entries = append(append(p.Entries[:idx], ch...), rest...)
				}
			case "version":
				p.V = mut.Pick(t, "v", []uint16{0, 1, 1, 2, 0xffff})
			case "root":
				p.UntrustedRoot[mut.Uniform(t, "rb", 32)] ^= 1
			case "truncate-proof":
				p.Entries = p.Entries[:idx]
			case "splice-entry":
				o := mut.Pick(t, "other", ps).proof
				p.Entries[idx] = o.Entries[mut.Uniform(t, "oe", len(o.Entries))]
			case "nest-entry":
				// an internal node whose embedded leaf is replaced by another full node encoding
				if len(e) > 2 {
					inner := e[1:]
					p.Entries[idx] = append([]byte{0x01, node.PrefixInternalNode, 0x00, 0x00}, inner...)
				}
			}
		}
		return cbor.Marshal(p), src.name, kinds
	}
}

// ---------------------------------------------------------------------------------------
// Tree nodes and keys.

func runNodeBytes(in []byte) outcome {
	n, err := node.UnmarshalBinary(in)
	kindOK := len(in) > 1 && (in[0] == node.PrefixLeafNode || in[0] == node.PrefixInternalNode)
	if err != nil {
		o := outcome{digest: errDigest(err)}
		if kindOK {
			o.depth = 1
		}
		return o
	}
	o := outcome{depth: 2}
	// An accepted node is well formed: the label / key it carries has exactly the length its length field declares
	// (computed here in plain ints, independently of Depth.ToBytes), and the operations later processing performs on
	// it (bit access at the last declared position, splitting at it) work.
	if in, ok := n.(*node.InternalNode); ok {
		want := (int(in.LabelBitLength) + 7) / 8
		if len(in.Label) != want {
			o.rt = fmt.Sprintf("accepted internal node declares a label of %d bits (%d bytes) but carries %d label bytes", in.LabelBitLength, want, len(in.Label))
			return o
		}
		if in.LabelBitLength > 0 {
			_ = in.Label.GetBit(in.LabelBitLength - 1)
			_, _ = in.Label.Split(in.LabelBitLength-1, in.LabelBitLength)
		}
	}
	m1, err := n.MarshalBinary()
	if err != nil {
		o.rt = fmt.Sprintf("accepted node does not marshal: %v", err)
		return o
	}
	c0, e0 := n.CompactMarshalBinaryV0()
	c1, e1 := n.CompactMarshalBinaryV1()
	n2, err := node.UnmarshalBinary(m1)
	if err != nil {
		o.rt = fmt.Sprintf("re-encoded node %x is rejected: %v", m1, err)
		return o
	}
	m2, _ := n2.MarshalBinary()
	if !bytes.Equal(m1, m2) {
		o.rt = fmt.Sprintf("second encoding %x differs from the first %x", m2, m1)
	}
	if l1, ok := n.(*node.LeafNode); ok {
		l2, ok2 := n2.(*node.LeafNode)
		if !ok2 || !l1.Hash.Equal(&l2.Hash) || !bytes.Equal(l1.Key, l2.Key) || !bytes.Equal(l1.Value, l2.Value) {
			o.rt = "leaf differs after re-encoding"
		}
	}
	// compact forms must decode again as well
	for _, c := range [][]byte{c0, c1} {
		if _, err := node.UnmarshalBinary(c); err != nil && e0 == nil && e1 == nil {
			o.rt = fmt.Sprintf("compact encoding %x of an accepted node is rejected: %v", c, err)
		}
	}
	o.digest = digestOf(m1, n.GetHash().String(), n.Size())
	return o
}

func runKeyBytes(in []byte) outcome {
	var k node.Key
	if err := k.UnmarshalBinary(in); err != nil {
		o := outcome{digest: errDigest(err)}
		if len(in) >= node.DepthSize {
			o.depth = 1 // length prefix read
		}
		return o
	}
	o := outcome{depth: 2}
	m1, _ := k.MarshalBinary()
	var k2 node.Key
	if err := k2.UnmarshalBinary(m1); err != nil || !bytes.Equal(k, k2) {
		o.rt = fmt.Sprintf("key %x re-encoded as %x decodes to %x (%v)", []byte(k), m1, []byte(k2), err)
	}
	o.digest = digestOf(m1, k.String(), int(k.BitLength()))
	return o
}

func nodeHot(in []byte) []int {
	// kind byte, key/label length, and (for leaves) the value length field
	hot := []int{0, 1, 2}
	if len(in) > 3 && in[0] == node.PrefixLeafNode {
		kl := int(binary.LittleEndian.Uint16(in[1:3]))
		for i := 0; i < 4; i++ {
			hot = append(hot, 3+kl+i)
		}
	}
	if len(in) > 3 && in[0] == node.PrefixInternalNode {
		ll := (int(binary.LittleEndian.Uint16(in[1:3])) + 7) / 8
		hot = append(hot, 3+ll, 4+ll, 5+ll, 6+ll)
	}
	return hot
}

func buildNodesGroup() ([]*target, error) {
	var seeds, extra []seed
	addNode := func(name string, n node.Node) {
		m, err := n.MarshalBinary()
		if err != nil {
			panic(err)
		}
		seeds = append(seeds, seed{name, m})
	}
	leaf := func(k, v []byte) *node.LeafNode {
		l := &node.LeafNode{Key: k, Value: v}
		l.UpdateHash()
		l.Clean = true
		return l
	}
	addNode("leaf", leaf([]byte("key"), []byte("value")))
	addNode("leaf-empty-key", leaf([]byte{}, []byte("v")))
	addNode("leaf-empty-value", leaf([]byte("k"), []byte{}))
	addNode("leaf-long", leaf(bytes.Repeat([]byte{0xa5}, 300), bytes.Repeat([]byte{0x5a}, 2000)))
	l := leaf([]byte("ab"), []byte("x"))
	mk := func(withLeaf bool, bits node.Depth, label []byte) *node.InternalNode {
		in := &node.InternalNode{LabelBitLength: bits, Label: label,
			Left: &node.Pointer{Clean: true, Hash: hashOf("left")}, Right: &node.Pointer{Clean: true, Hash: hashOf("right")}}
		if withLeaf {
			in.LeafNode = &node.Pointer{Clean: true, Hash: l.Hash, Node: l}
		}
		in.UpdateHash()
		in.Clean = true
		return in
	}
	addNode("internal", mk(false, 3, []byte{0xa0}))
	addNode("internal-leaf", mk(true, 16, []byte("ab")))
	addNode("internal-nolabel", mk(true, 0, []byte{}))
	for _, n := range []*node.InternalNode{mk(false, 3, []byte{0xa0}), mk(true, 16, []byte("ab"))} {
		c0, _ := n.CompactMarshalBinaryV0()
		c1, _ := n.CompactMarshalBinaryV1()
		seeds = append(seeds, seed{"internal-compact-v0", c0}, seed{"internal-compact-v1", c1})
	}
	// boundary label lengths (the length field is 16 bits of BITS: the byte length computation must not wrap)
	for _, bits := range []uint16{65535, 65534, 65529, 65528, 65521, 32768, 8, 7} {
		for _, withLabel := range []bool{false, true} {
			b := []byte{node.PrefixInternalNode, byte(bits), byte(bits >> 8)}
			if withLabel {
				b = append(b, bytes.Repeat([]byte{0xff}, (int(bits)+7)/8)...)
			}
			b = append(b, node.PrefixNilNode)
			lh, rh := hashOf("left"), hashOf("right")
			full := append(append(append([]byte{}, b...), lh[:]...), rh[:]...)
			if withLabel || bits == 0 {
				seeds = append(seeds, seed{fmt.Sprintf("internal-bits-%d-label", bits), b}, seed{fmt.Sprintf("internal-bits-%d-label-hashes", bits), full})
			} else {
				// declared label missing: must be rejected (kept in the corpus as hostile shapes)
				extra = append(extra, seed{fmt.Sprintf("internal-bits-%d-nolabel", bits), b}, seed{fmt.Sprintf("internal-bits-%d-nolabel-hashes", bits), full})
			}
		}
	}
	// nodes of a real tree, as they appear in proofs
	ps, err := proofSeeds()
	if err != nil {
		return nil, err
	}
	for _, p := range ps[:4] {
		for i, e := range p.proof.Entries {
			if len(e) > 1 && e[0] == 0x01 && i < 6 {
				seeds = append(seeds, seed{fmt.Sprintf("%s-entry%d", p.name, i), e[1:]})
			}
		}
	}
	nodes := &target{name: "node-unmarshal", doc: "1 node kind byte ok, 2 node decoded", seeds: seeds, extra: extra, wantDepth: 2, run: runNodeBytes, hot: nodeHot, cborPercent: -1}

	var kseeds []seed
	for _, k := range [][]byte{{}, []byte("k"), []byte("some key"), bytes.Repeat([]byte{0xff}, 255), bytes.Repeat([]byte{1}, 1000)} {
		m, _ := node.Key(k).MarshalBinary()
		kseeds = append(kseeds, seed{fmt.Sprintf("key-%d", len(k)), m})
	}
	keys := &target{name: "key-unmarshal", doc: "1 length prefix read, 2 key decoded", seeds: kseeds, wantDepth: 2, run: runKeyBytes, hot: func([]byte) []int { return []int{0, 1} }, cborPercent: -1}
	// Write logs received from a peer (storage diff sync): CBOR list of {key, value}; applied to a tree and committed
	// without persisting. Seeds include keys at and beyond the longest addressable key (bit offsets are 16 bit wide).
	var wseeds, wextra []seed
	mkLog := func(name string, good bool, entries ...writelog.LogEntry) {
		sd := seed{name, cbor.Marshal(writelog.WriteLog(entries))}
		if good {
			wseeds = append(wseeds, sd)
		} else {
			wextra = append(wextra, sd)
		}
	}
	mkLog("wl-small", true, writelog.LogEntry{Key: []byte("a"), Value: []byte("1")}, writelog.LogEntry{Key: []byte("ab"), Value: []byte("2")}, writelog.LogEntry{Key: []byte("a"), Value: nil})
	mkLog("wl-empty-key", true, writelog.LogEntry{Key: []byte{}, Value: []byte{}}, writelog.LogEntry{Key: []byte("k"), Value: bytes.Repeat([]byte{7}, 300)})
	long := func(n int, last byte) []byte { return append(bytes.Repeat([]byte{0x41}, n-1), last) }
	mkLog("wl-keys-node.MaxKeySize", true, writelog.LogEntry{Key: long(node.MaxKeySize, 0x41), Value: []byte("a")}, writelog.LogEntry{Key: long(node.MaxKeySize, 0x42), Value: []byte("b")})
	mkLog("wl-keys-8192", false, writelog.LogEntry{Key: long(node.MaxKeySize+1, 0x41), Value: []byte("a")}, writelog.LogEntry{Key: long(node.MaxKeySize+1, 0x42), Value: []byte("b")})
	mkLog("wl-key-8192-single", false, writelog.LogEntry{Key: long(node.MaxKeySize+1, 0x41), Value: []byte("a")})
	mkLog("wl-keys-9000", false, writelog.LogEntry{Key: long(9000, 0x41), Value: []byte("a")}, writelog.LogEntry{Key: long(9000, 0x42), Value: []byte("b")})
	wlApply := &target{name: "writelog-apply", doc: "input = CBOR write log as a peer serves it: 1 decoded, 2 applied to a tree and committed (no persistence), 3 every entry reads back",
		seeds: wseeds, extra: wextra, wantDepth: 3, run: runWriteLogApply, hostile: true, weight: 2}
	return []*target{nodes, keys, wlApply}, nil
}

func runWriteLogApply(in []byte) outcome {
	var wl writelog.WriteLog
	if err := cbor.Unmarshal(in, &wl); err != nil {
		return outcome{digest: errDigest(err)}
	}
	o := outcome{depth: 1}
	tr := mkvs.New(nil, nil, node.RootTypeState)
	defer tr.Close()
	if err := tr.ApplyWriteLog(bg, writelog.NewStaticIterator(wl)); err != nil {
		o.digest = errDigest(err)
		return o
	}
	var ns common.Namespace
	_, rh, err := tr.Commit(bg, ns, 1, mkvs.NoPersist())
	if err != nil {
		o.digest = errDigest(err)
		return o
	}
	o.depth = 2
	// the last entry per key decides; every key reads back accordingly
	last := map[string][]byte{}
	present := map[string]bool{}
	for _, e := range wl {
		last[string(e.Key)], present[string(e.Key)] = e.Value, e.Value != nil
	}
	for k, v := range last {
		got, err := tr.Get(bg, []byte(k))
		if err != nil || (present[k] && !bytes.Equal(got, v)) || (!present[k] && got != nil) {
			o.rt = fmt.Sprintf("write log applied without error but key %x (%d bytes) reads %x / %v, log says %x (present=%v)", firstBytes([]byte(k), 8), len(k), firstBytes(got, 8), err, firstBytes(v, 8), present[k])
			return o
		}
	}
	o.depth = 3
	o.digest = digestOf(rh[:])
	return o
}

func firstBytes(b []byte, n int) []byte {
	if len(b) > n {
		return b[:n]
	}
	return b
}

// ---------------------------------------------------------------------------------------
// Checkpoint chunks.

type chunkFixture struct {
	dst    dbApi.NodeDB
	rs     checkpoint.Restorer
	meta   *checkpoint.Metadata
	chunks [][]byte // honest chunk bytes
}

func (f *chunkFixture) restore(meta *checkpoint.Metadata, idx uint64, in []byte) (bool, error) {
	if err := f.rs.StartRestore(bg, meta); err != nil {
		return false, fmt.Errorf("harness: StartRestore: %w", err)
	}
	done, err := f.rs.RestoreChunk(bg, idx, bytes.NewReader(in))
	_ = f.rs.AbortRestore(bg)
	if err == nil {
		// Nodes were imported: roll the multipart insert back so every input starts from the same state.
		if e := f.dst.AbortMultipartInsert(); e != nil {
			return done, fmt.Errorf("harness: AbortMultipartInsert: %w", e)
		}
		if e := f.dst.StartMultipartInsert(f.meta.Root.Version); e != nil {
			return done, fmt.Errorf("harness: StartMultipartInsert: %w", e)
		}
	}
	return done, err
}

func chunkOutcome(done bool, err error) outcome {
	o := outcome{digest: fmt.Sprint(done, " ", errDigest(err))}
	switch {
	case err == nil:
		o.depth = 3
	case strings.HasPrefix(err.Error(), "harness:"):
		o.violSig, o.violMsg = "harness", err.Error()
	case errors.Is(err, checkpoint.ErrChunkProofVerificationFailed):
		if strings.Contains(err.Error(), "failed to decode chunk") {
			o.depth = 1 // digest matched, snappy / CBOR stream decoding failed
		} else {
			o.depth = 2 // entries decoded, proof verification ran
		}
	}
	return o
}

func snappyFrame(raw []byte) []byte {
	var buf bytes.Buffer
	sw := snappy.NewBufferedWriter(&buf)
	_, _ = sw.Write(raw)
	_ = sw.Close()
	return buf.Bytes()
}

func buildChunksGroup() ([]*target, error) {
	// source tree
	var keys, values [][]byte
	for i := 0; i < 120; i++ {
		keys = append(keys, []byte(fmt.Sprintf("chunk-key-%03d", i)))
		values = append(values, bytes.Repeat([]byte{byte(i)}, 20+i%30))
	}
	bt, err := buildTree(keys, values)
	if err != nil {
		return nil, err
	}
	dir := kv.TempDir("c16-checkpoints")
	fc, err := checkpoint.NewFileCreator(dir, bt.ndb)
	if err != nil {
		return nil, err
	}
	meta, err := fc.CreateCheckpoint(bg, bt.root, 2048, 0)
	if err != nil {
		return nil, err
	}
	f := &chunkFixture{meta: meta}
	for i := range meta.Chunks {
		cm, err := meta.GetChunkMetadata(uint64(i))
		if err != nil {
			return nil, err
		}
		var buf bytes.Buffer
		if err := fc.GetCheckpointChunk(bg, cm, &buf); err != nil {
			return nil, err
		}
		f.chunks = append(f.chunks, buf.Bytes())
	}
	if len(f.chunks) < 2 {
		return nil, fmt.Errorf("expected several chunks, got %d", len(f.chunks))
	}
	if f.dst, err = kv.OpenDB("badger", "", true); err != nil {
		return nil, err
	}
	if f.rs, err = checkpoint.NewRestorer(f.dst); err != nil {
		return nil, err
	}
	if err = f.dst.StartMultipartInsert(meta.Root.Version); err != nil {
		return nil, err
	}
	var seeds, rawSeeds []seed
	for i, c := range f.chunks {
		if i >= 4 {
			break
		}
		seeds = append(seeds, seed{fmt.Sprintf("chunk%d", i), c})
		raw, err := io.ReadAll(snappy.NewReader(bytes.NewReader(c)))
		if err != nil {
			return nil, err
		}
		rawSeeds = append(rawSeeds, seed{fmt.Sprintf("chunk%d-entries", i), raw})
	}
	withDigest := func(in []byte) *checkpoint.Metadata {
		m := *f.meta
		m.Chunks = append([]hash.Hash{}, f.meta.Chunks...)
		m.Chunks[0] = hash.NewFromBytes(in)
		return &m
	}
	// The restorer distinguishes "the bytes are not what the manifest promises" (ErrChunkCorrupted: the caller fetches
	// the chunk again) from "the bytes ARE what the manifest promises but are unusable" (ErrChunkProofVerificationFailed:
	// the restore is aborted and the checkpoint rejected). With the digest of the input listed in the manifest the first
	// class is impossible; reporting it would make every caller fetch the same bytes again, for ever.
	matching := func(o outcome, err error) outcome {
		if err != nil && errors.Is(err, checkpoint.ErrChunkCorrupted) {
			o.violSig, o.violMsg = "chunk-matching-manifest-reported-corrupted", "a chunk whose digest is exactly the one listed in the manifest was rejected as corrupted in transit (refetch) instead of aborting the restore: "+err.Error()
		}
		return o
	}
	plain := &target{
		name: "chunk-restore", doc: "input = chunk 0 of a real restore in progress with the honest manifest: 0 digest mismatch, 1 digest ok but stream undecodable, 2 proof verification ran, 3 restored",
		seeds: seeds[:1], wantDepth: 3, cborPercent: -1, weight: 1, // the digest check stops almost every mutant: the +digest variants carry the search
		run: func(in []byte) outcome { return chunkOutcome(f.restore(f.meta, 0, in)) },
	}
	digest := &target{
		name: "chunk-restore+digest", doc: "as chunk-restore, but the manifest of the (hostile) peer lists the digest of the input",
		seeds: seeds, wantDepth: 2, cborPercent: -1,
		run: func(in []byte) outcome {
			done, err := f.restore(withDigest(in), 0, in)
			return matching(chunkOutcome(done, err), err)
		},
	}
	framed := &target{
		name: "chunk-restore+snappy", doc: "input = the CBOR sequence of proof entries; the harness snappy-frames it and lists its digest: 1 stream undecodable, 2 proof verification ran, 3 restored",
		seeds: rawSeeds, wantDepth: 2, seq: true, hostile: true,
		run: func(in []byte) outcome {
			c := snappyFrame(in)
			done, err := f.restore(withDigest(c), 0, c)
			o := matching(chunkOutcome(done, err), err)
			o.note = "chunk=" + hexShort(c)
			return o
		},
	}
	// deep chains inside a chunk
	for _, n := range []int{129, 200, 3000} {
		var raw []byte
		for _, e := range chainEntries(n, 0) {
			raw = append(raw, cbor.Marshal(e)...)
		}
		framed.extra = append(framed.extra, seed{fmt.Sprintf("chain-%d", n), raw})
	}
	return []*target{plain, digest, framed}, nil
}
