// Package c17 decides property C17: registry records change only with authority; keys stay unique.
package c17

import (
	"errors"
	"fmt"
	"testing"

	"pgregory.net/rapid"

	"github.com/oasisprotocol/oasis-core/go/common/cbor"
	"github.com/oasisprotocol/oasis-core/go/common/node"
	"github.com/oasisprotocol/oasis-core/go/consensus/api/transaction"
	registry "github.com/oasisprotocol/oasis-core/go/registry/api"

	"verifharness/chain"
	"verifharness/ev"
)

const rule = "case = generated production-mode genesis (entities with 1-2 nodes, optional compute runtime) + 12-40 blocks over several epochs of registry-heavy traffic: node re-registrations that keep, renew, SWAP or CYCLE the node's own P2P/TLS/VRF keys or take " +
	"a key of another node; entity updates that add / remove whitelisted nodes; first registrations of whitelisted and of stray nodes; entity deregistration; runtime updates; node expiry (skipped re-registration) and re-registration after expiry; each also in an " +
	"UNAUTHORIZED variant built by construction (transaction signed by the entity / another node / another entity, each single descriptor signature missing or made by an unrelated key, node claiming an entity that does not list it, runtime updated by a " +
	"non-governing entity, entity descriptor signed by another entity), mixed with ordinary staking traffic. oracle = (authority) every unauthorized variant has a non-zero result code (C08 shows a failing transaction changes nothing else); (indexes, after " +
	"EVERY block, recomputed from the primary records) every registered node is found under each of its current consensus/P2P/TLS/VRF keys and its consensus address, no key belongs to two nodes, the raw key-map / consensus-address / node-by-entity index sizes " +
	"equal the numbers implied by the registered nodes (no dangling entries), HasEntityNodes/GetEntityNodes agree with the nodes, no entity with nodes or runtimes is missing, and every account's stake claims with their thresholds are exactly those implied " +
	"by the registered entities, nodes and runtimes. non-trivial = history with a successful key rotation or exchange AND a rejected unauthorized transaction AND a node expiry; distinct = hash of spec and block ids"

func TestC17Registry(t *testing.T) {
	rec := ev.New("C17", "TestC17Registry", rule,
		"authority defects are introduced by construction (the generator knows which rule each unauthorized variant breaks)",
		"raw index prefixes are self-checked against the typed accessors (mismatch = harness problem, not a violation)")
	defer rec.Flush()
	var cur *chain.Sim
	var curSpec *chain.Spec
	ev.Trace = func() any {
		if cur == nil {
			return nil
		}
		return map[string]any{"spec": curSpec, "trace": cur.Trace}
	}
	rapid.Check(t, func(t *rapid.T) {
		spec := chain.GenSpec(t)
		curSpec = spec
		w0, err := chain.BuildGenesis(spec)
		if err != nil {
			ev.Infra(t, "build genesis: %v", err)
		}
		sim, err := chain.NewSim(spec, []chain.ReplicaConfig{{Name: "R0", Backend: rapid.SampledFrom(chain.Backends).Draw(t, "backend"), MemoryOnly: true, Keys: w0.Entities[0].Nodes[0]}})
		if err != nil {
			var ig chain.ErrInvalidGenesis
			if errors.As(err, &ig) {
				rec.Discard("invalid-genesis")
				return
			}
			var ec chain.ErrEngineContract
			if errors.As(err, &ec) {
				rec.Discard("engine-contract-at-genesis:" + chain.Why(ec.Err)) // C10 / C14 report it
				return
			}
			ev.Infra(t, "new sim: %v", err)
		}
		cur = sim
		defer sim.Close()
		r := sim.Reps[0]
		fail := func(sig, format string, args ...any) {
			ev.Violation(t, sig, "%s; spec=%+v trace=%v", fmt.Sprintf(format, args...), *spec, tail(sim.Trace, 30))
		}
		nblocks := rapid.IntRange(12, ev.Pick(40, 120)).Draw(t, "nblocks")
		var fp []any
		fp = append(fp, fmt.Sprintf("%+v", *spec))
		rotations, rejected, expiries := 0, 0, 0
		prevNodes := -1
		// positions (height*1000 + index in the block) of the last successful registration of each node and of the last
		// successful change of the runtime's node stake thresholds: a node registered AFTER that change has its claim computed
		// from the current runtime descriptor, so a wrong claim of such a node is not the recorded stale-claims finding
		registeredAt := map[string]int64{}
		thresholdsChangedAt := int64(-1)
		for bi := 0; bi < nblocks; bi++ {
			view, err := chain.NewView(r)
			if err != nil {
				ev.Infra(t, "view: %v", err)
			}
			if sim.W.Runtime != nil {
				if rs, err := view.RuntimeState(sim.W.Runtime.ID); err != nil {
					rec.Label("block:runtime=unreadable")
				} else if rs.Suspended {
					rec.Label("block:runtime=suspended")
				} else {
					rec.Label("block:runtime=active")
				}
			}
			bg := sim.GenBlock(t, view, 3)
			// registry traffic on top
			g := chain.NewTxGen(sim.W, view, "registry")
			// preconditions of the two recorded registry findings are only built while they are not listed as known
			// (the stale-claims finding is told apart by the oracle below, so its precondition - a runtime changing its node
			// thresholds - is always generated: what happens AFTER such a change is part of the property)
			g.Allow = map[string]bool{chain.SigStaleNodeClaims: true, chain.SigNodeKeyAsSubKey: !ev.Excluded(chain.SigNodeKeyAsSubKey)}
			// nonces: account for what GenBlock already generated for the same signers
			for _, d := range bg.Txs {
				if d.ExpectAuthOK {
					g.Bump(d.Addr)
				}
			}
			var regs []*chain.RegTx
			nreg := rapid.IntRange(0, 4).Draw(t, "nreg")
			for i := 0; i < nreg; i++ {
				rt := g.GenRegistry(t)
				regs = append(regs, rt)
				bg.Block.Txs = append(bg.Block.Txs, rt.Raw)
			}
			view.Close()
			b := bg.Block
			if _, err := sim.E.Propose(b, r, r); err != nil {
				rec.Discard("proposal-failed:" + chain.Why(err))
				return
			}
			out := sim.E.Execute(r, b, chain.PathProcess, nil)
			if out.Err != nil || !out.Accepted {
				rec.Discard("block-failed:" + chain.Why(out.Err))
				return
			}
			fp = append(fp, b.Hash)
			base := len(bg.Txs)
			for i, raw := range b.Full {
				if i < len(out.TxResults) && out.TxResults[i].Code == 0 {
					if id, ok := registeredNode(raw); ok {
						registeredAt[id] = b.Height*1000 + int64(i)
					}
				}
			}
			seqBefore := sim.W.RtThresholdsSeq
			line := fmt.Sprintf("h=%d", b.Height)
			for i, rt := range regs {
				res := out.TxResults[base+i]
				line += fmt.Sprintf(" [%s by %s unauth=%q -> %s/%d]", rt.Note, rt.Signer, rt.Unauthorized, res.Codespace, res.Code)
				rec.Label(fmt.Sprintf("reg:%s:ok=%v", firstWord(rt.Note), res.Code == 0))
				if rt.Unauthorized != "" {
					if res.Code == 0 {
						sim.Logf("%s", line)
						fail("unauthorized-registry-change", "unauthorized registry transaction succeeded: %s (%s)", rt.Note, rt.Unauthorized)
					}
					rejected++
					continue
				}
				if res.Code == 0 && rt.OnSuccess != nil {
					rt.OnSuccess()
					if sim.W.RtThresholdsSeq != seqBefore {
						seqBefore = sim.W.RtThresholdsSeq
						thresholdsChangedAt = b.Height*1000 + int64(base+i)
					}
					if containsAny(rt.Note, "swap", "cycle", "fresh") {
						rotations++
						rec.Label("rotation:" + rotationKind(rt.Note))
					}
				}
			}
			sim.Logf("%s", line)
			if err := sim.AfterCommit(b, out); err != nil {
				rec.Discard("engine-contract:" + chain.Why(err))
				return
			}
			// ---- invariants on the committed state
			cv, err := chain.NewView(r)
			if err != nil {
				ev.Infra(t, "view: %v", err)
			}
			dump, err := chain.DumpAtVersion(r, 0)
			if err != nil {
				cv.Close()
				ev.Infra(t, "dump: %v", err)
			}
			sig, msg, wrong := chain.RegistryInvariantsEx(cv, dump)
			nn, _ := cv.Reg.Nodes(cv.Ctx())
			cv.Close()
			if sig == "registry-unreadable" {
				ev.Infra(t, "%s", msg)
			}
			if sim.W.RtThresholdsSeq != seqBefore {
				thresholdsChangedAt = b.Height*1000 + 999 // (changed by a transaction accounted for elsewhere: position unknown)
			}
			if sig == "wrong-stake-claim" && sim.W.RtThresholdsChanged {
				sig = chain.SigStaleNodeClaims // (node claims computed from the runtime descriptor as it was when the node registered)
				for _, wc := range wrong {
					if at, ok := registeredAt[string(wc.Claim)]; ok && at > thresholdsChangedAt {
						// ... but this node has registered again since: its claim was computed from the current descriptor
						sig, msg = "wrong-stake-claim", wc.Msg+fmt.Sprintf(" (the node registered again - position %d - after the last change of the runtime's thresholds - position %d)", at, thresholdsChangedAt)
						break
					}
				}
				if sig == chain.SigStaleNodeClaims && ev.Excluded(chain.SigStaleNodeClaims) {
					// the recorded finding, exactly: claims of nodes that have not registered since the change
					rec.Label("known-finding-seen:stale-claims-of-nodes-not-registered-since-the-change")
					sig = ""
				}
			}
			if sig != "" {
				fail(sig, "after block %d: %s", b.Height, msg)
			}
			if prevNodes >= 0 && len(nn) < prevNodes {
				expiries++
			}
			prevNodes = len(nn)
		}
		nt := rotations > 0 && rejected > 0 && expiries > 0
		rec.LabelN("rotations", uint64(rotations))
		rec.LabelN("rejected-unauthorized", uint64(rejected))
		rec.LabelN("node-removals", uint64(expiries))
		var sample any
		if nt && rec.WantSample() {
			sample = map[string]any{"spec": spec, "trace": tail(sim.Trace, 20)}
		}
		rec.Case(nt, ev.Fingerprint(fp...), sample)
	})
}

func firstWord(s string) string {
	for i, c := range s {
		if c == ' ' && i > 0 {
			rest := s[i+1:]
			for j, d := range rest {
				if d == ' ' {
					return s[:i] + "-" + rest[:j]
				}
			}
			return s
		}
	}
	return s
}

func containsAny(s string, subs ...string) bool {
	for _, x := range subs {
		for i := 0; i+len(x) <= len(s); i++ {
			if s[i:i+len(x)] == x {
				return true
			}
		}
	}
	return false
}

func tail(s []string, n int) []string {
	if len(s) > n {
		return s[len(s)-n:]
	}
	return s
}

func rotationKind(note string) string {
	for _, k := range []string{"swap p2p<->tls", "swap p2p<->vrf", "swap tls<->vrf", "cycle p2p<-tls<-vrf", "fresh p2p", "fresh tls+vrf"} {
		if containsAny(note, k) {
			return k
		}
	}
	return "other"
}

// TestC17KeySwap is the shrunk reproduction of the defect found by TestC17Registry on the original tree
// (repaired in /repo by "fix: registry keeps a node's key mappings when it exchanges keys between roles"):
// a node re-registers with two of its keys exchanged and must still be found under all its current keys.
func TestC17KeySwap(t *testing.T) {
	rec := ev.New("C17", "TestC17KeySwap", "deterministic regression cases: a non-anchor node re-registers with (p2p,tls) swapped, (p2p,vrf) swapped, (tls,vrf) swapped, and p2p<-tls<-vrf cycled; registry invariants afterwards", "")
	defer rec.Flush()
	for ci, perm := range []string{"p2p-tls", "p2p-vrf", "tls-vrf", "cycle"} {
		spec := chain.DefaultSpec()
		w0, err := chain.BuildGenesis(spec)
		if err != nil {
			ev.Infra(t, "genesis: %v", err)
		}
		sim, err := chain.NewSim(spec, []chain.ReplicaConfig{{Name: "R0", Backend: "badger", MemoryOnly: true, Keys: w0.Entities[0].Nodes[0]}})
		if err != nil {
			ev.Infra(t, "sim: %v", err)
		}
		r := sim.Reps[0]
		run := func(txs [][]byte) *chain.BlockOutcome {
			vals := sim.E.Validators().Sorted()
			b := &chain.Block{Height: sim.E.Height, Time: sim.E.Time.Add(1e9), Proposer: vals[0], Txs: txs}
			signed := map[string]bool{}
			for _, v := range sim.E.PrevValidators() {
				signed[string(v.Address)] = true
			}
			b.LastCommit = sim.E.CommitInfoFor(signed)
			if _, err := sim.E.Propose(b, sim.ReplicaFor(b.Proposer), r); err != nil {
				ev.Infra(t, "propose: %v", err)
			}
			out := sim.E.Execute(r, b, chain.PathProcess, nil)
			if out.Err != nil {
				ev.Infra(t, "execute: %v", out.Err)
			}
			if err := sim.AfterCommit(b, out); err != nil {
				ev.Infra(t, "advance: %v", err)
			}
			return out
		}
		run(nil)
		ek, nk := sim.W.Entities[1], sim.W.Entities[1].Nodes[0]
		switch perm {
		case "p2p-tls":
			nk.P2P, nk.TLS = nk.TLS, nk.P2P
		case "p2p-vrf":
			nk.P2P, nk.VRF = nk.VRF, nk.P2P
		case "tls-vrf":
			nk.TLS, nk.VRF = nk.VRF, nk.TLS
		default:
			nk.P2P, nk.TLS, nk.VRF = nk.TLS, nk.VRF, nk.P2P
		}
		view, _ := chain.NewView(r)
		g := chain.NewTxGen(sim.W, view, "")
		d := g.RefreshTx(ek, nk, view.Epoch+2)
		view.Close()
		out := run([][]byte{d.Raw})
		if out.TxResults[0].Code != 0 {
			sim.Close()
			ev.Infra(t, "re-registration with exchanged keys was rejected: %s", out.TxResults[0].Log)
		}
		cv, _ := chain.NewView(r)
		dump, _ := chain.DumpAtVersion(r, 0)
		sig, msg := chain.RegistryInvariants(cv, dump)
		cv.Close()
		sim.Close()
		rec.Case(true, ev.Fingerprint(ci), fmt.Sprintf("%s: %s %s", perm, sig, msg))
		if sig != "" {
			ev.Violation(t, sig, "node re-registered with keys exchanged (%s): %s", perm, msg)
		}
	}
}

// registeredNode returns the stake claim name of the node a raw RegisterNode transaction registers.
func registeredNode(raw []byte) (string, bool) {
	var st transaction.SignedTransaction
	var tx transaction.Transaction
	if cbor.Unmarshal(raw, &st) != nil || cbor.Unmarshal(st.Blob, &tx) != nil || tx.Method != registry.MethodRegisterNode {
		return "", false
	}
	var sn node.MultiSignedNode
	var nd node.Node
	if cbor.Unmarshal(tx.Body, &sn) != nil || cbor.Unmarshal(sn.Blob, &nd) != nil {
		return "", false
	}
	return string(registry.StakeClaimForNode(nd.ID)), true
}
