package c17

import (
	"fmt"
	"testing"

	"github.com/oasisprotocol/oasis-core/go/common/quantity"
	"github.com/oasisprotocol/oasis-core/go/consensus/api/transaction"
	registry "github.com/oasisprotocol/oasis-core/go/registry/api"
	staking "github.com/oasisprotocol/oasis-core/go/staking/api"

	"verifharness/chain"
	"verifharness/ev"
)

// Deterministic probes of the two recorded registry findings (known_findings.json). Each re-executes the minimal
// history and raises the finding's signature while it still reproduces.

type probeChain struct {
	t   *testing.T
	sim *chain.Sim
	r   *chain.Replica
}

func newProbeChain(t *testing.T, spec *chain.Spec) *probeChain {
	w0, err := chain.BuildGenesis(spec)
	if err != nil {
		ev.Infra(t, "genesis: %v", err)
	}
	sim, err := chain.NewSim(spec, []chain.ReplicaConfig{{Name: "R0", Backend: "badger", MemoryOnly: true, Keys: w0.Entities[0].Nodes[0]}})
	if err != nil {
		ev.Infra(t, "sim: %v", err)
	}
	return &probeChain{t, sim, sim.Reps[0]}
}

func (p *probeChain) run(txs [][]byte) *chain.BlockOutcome {
	sim, r, t := p.sim, p.r, p.t
	vals := sim.E.Validators().Sorted()
	b := &chain.Block{Height: sim.E.Height, Time: sim.E.Time.Add(1e9), Proposer: vals[0], Txs: txs}
	signed := map[string]bool{}
	for _, v := range sim.E.PrevValidators() {
		signed[string(v.Address)] = true
	}
	b.LastCommit = sim.E.CommitInfoFor(signed)
	if _, err := sim.E.Propose(b, sim.ReplicaFor(b.Proposer), r); err != nil {
		ev.Infra(t, "propose: %v", err)
	}
	out := sim.E.Execute(r, b, chain.PathProcess, nil)
	if out.Err != nil {
		ev.Infra(t, "execute: %v", out.Err)
	}
	if err := sim.AfterCommit(b, out); err != nil {
		ev.Infra(t, "advance: %v", err)
	}
	return out
}

func (p *probeChain) invariants() (string, string) {
	cv, err := chain.NewView(p.r)
	if err != nil {
		ev.Infra(p.t, "view: %v", err)
	}
	defer cv.Close()
	dump, _ := chain.DumpAtVersion(p.r, 0)
	return chain.RegistryInvariants(cv, dump)
}

// TestC17KFStaleNodeClaims: a runtime changes its per-runtime node stake thresholds; the stake claims of the nodes
// already registered for it keep the thresholds of the runtime descriptor as it was when they registered.
func TestC17KFStaleNodeClaims(t *testing.T) {
	rec := ev.New("C17", "TestC17KFStaleNodeClaims", "deterministic probe of finding "+chain.SigStaleNodeClaims+": genesis with a compute runtime and a compute node registered for it; the owner updates the runtime with staking.thresholds = {node-compute: 7}; registry invariants afterwards", "")
	defer rec.Flush()
	spec := chain.DefaultSpec()
	spec.NodeRoles = [][]int{{3}, {3}}
	spec.WithRuntime = true
	spec.RtGroup, spec.RtBackup, spec.RtRoundTimeout = 1, 1, 3
	p := newProbeChain(t, spec)
	defer p.sim.Close()
	p.run(nil)
	if sig, msg := p.invariants(); sig != "" {
		ev.Infra(t, "invariants before the update: %s %s", sig, msg)
	}
	rt := *p.sim.W.Runtime
	rt.Staking.Thresholds = map[staking.ThresholdKind]quantity.Quantity{staking.KindNodeCompute: *chain.Q(7)}
	owner := p.sim.W.Entities[spec.RtOwner%len(p.sim.W.Entities)]
	view, _ := chain.NewView(p.r)
	nonce := view.Account(owner.Address()).General.Nonce
	view.Close()
	out := p.run([][]byte{chain.SignTx(owner.Signer, nonce, &transaction.Fee{Gas: 1000000}, registry.MethodRegisterRuntime, &rt)})
	if out.TxResults[0].Code != 0 {
		ev.Infra(t, "the runtime update was rejected: %s/%d %s", out.TxResults[0].Codespace, out.TxResults[0].Code, out.TxResults[0].Log)
	}
	sig, msg := p.invariants()
	rec.Case(true, ev.Fingerprint("stale-node-claims"), fmt.Sprintf("%s %s", sig, msg))
	switch sig {
	case "":
	case "wrong-stake-claim":
		ev.Violation(t, chain.SigStaleNodeClaims, "runtime update {staking.thresholds: {node-compute: 7}} accepted; the claims of the nodes registered for the runtime were not brought up to date: %s", msg)
	default:
		ev.Violation(t, sig, "after the runtime update: %s", msg)
	}
}

// TestC17KFNodeKeyAsSubKey: the identity key of one registered node is accepted as the P2P key of another.
func TestC17KFNodeKeyAsSubKey(t *testing.T) {
	rec := ev.New("C17", "TestC17KFNodeKeyAsSubKey", "deterministic probe of finding "+chain.SigNodeKeyAsSubKey+": node B re-registers (fully signed, the key's holder co-signing) with node A's identity key as its P2P key; registry invariants afterwards", "")
	defer rec.Flush()
	spec := chain.DefaultSpec()
	p := newProbeChain(t, spec)
	defer p.sim.Close()
	p.run(nil)
	a := p.sim.W.Entities[0].Nodes[0]
	ek, b := p.sim.W.Entities[1], p.sim.W.Entities[1].Nodes[0]
	b.P2P = a.ID
	view, _ := chain.NewView(p.r)
	g := chain.NewTxGen(p.sim.W, view, "")
	d := g.RefreshTx(ek, b, view.Epoch+2)
	view.Close()
	out := p.run([][]byte{d.Raw})
	accepted := out.TxResults[0].Code == 0
	sig, msg := p.invariants()
	rec.Case(true, ev.Fingerprint("node-key-as-subkey"), fmt.Sprintf("accepted=%v %s %s", accepted, sig, msg))
	if accepted && sig == chain.SigNodeKeyAsSubKey {
		ev.Violation(t, chain.SigNodeKeyAsSubKey, "node %s re-registered with the identity key of the registered node %s as its P2P key: %s", b.Name, a.Name, msg)
	} else if sig != "" {
		ev.Violation(t, sig, "after the re-registration: %s", msg)
	}
}
