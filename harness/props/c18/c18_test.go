// Package c18 decides property C18 (attestation quotes are accepted only as signed and within
// policy) with metamorphic mutation testing of the repo's known-good SGX and TDX quote vectors and
// an independent validity model for the time / policy sweeps.
package c18

import (
	"bytes"
	"crypto"
	"crypto/ecdsa"
	"crypto/elliptic"
	"crypto/sha256"
	"crypto/x509"
	"crypto/x509/pkix"
	"encoding/asn1"
	"encoding/binary"
	"encoding/hex"
	"encoding/json"
	"encoding/pem"
	"fmt"
	"math"
	"math/big"
	"os"
	"path/filepath"
	"sort"
	"strconv"
	"strings"
	"sync"
	"testing"
	"time"

	"pgregory.net/rapid"

	"github.com/oasisprotocol/oasis-core/go/common/sgx"
	"github.com/oasisprotocol/oasis-core/go/common/sgx/pcs"

	"verifharness/ev"
)

// ---------------------------------------------------------------------------------------------
// Fixtures
// ---------------------------------------------------------------------------------------------

func repoRoot() string {
	if v := os.Getenv("VERIF_REPO"); v != "" {
		return v
	}
	return "/repo"
}

func readFixture(name string) ([]byte, error) {
	return os.ReadFile(filepath.Join(repoRoot(), "go", "common", "sgx", "pcs", "testdata", name))
}

// span is a half-open byte range [a,b) of a quote.
type span struct{ a, b int }

func (s span) len() int { return s.b - s.a }

// layout is the test's own decoding of the quote wire format (Intel SGX ECDSA quote v3 / TDX
// quote v4), written from the format description and not by calling the code under test.
type layout struct {
	v4                                bool
	hdr, body, sigLen, sig, att       span
	outer                             span // v4 only: certification data type (2) + size (4) of the QE report envelope
	qeRep, qeSig, authLen, auth       span
	certType, certLen, cert, trailing span // trailing = bytes of the signature area after the certification data
	total                             int
}

func le16(b []byte) int { return int(binary.LittleEndian.Uint16(b)) }
func le32(b []byte) int { return int(binary.LittleEndian.Uint32(b)) }

func parseLayout(b []byte) (layout, bool) {
	var l layout
	if len(b) < 48+384+4 {
		return l, false
	}
	ver := le16(b)
	bodyLen := 384
	switch ver {
	case 3:
	case 4:
		l.v4 = true
		if binary.LittleEndian.Uint32(b[4:]) == 0x81 {
			bodyLen = 584
		}
	default:
		return l, false
	}
	o := 0
	next := func(n int) (span, bool) {
		if n < 0 || o+n > len(b) {
			return span{}, false
		}
		s := span{o, o + n}
		o += n
		return s, true
	}
	var ok bool
	if l.hdr, ok = next(48); !ok {
		return l, false
	}
	if l.body, ok = next(bodyLen); !ok {
		return l, false
	}
	if l.sigLen, ok = next(4); !ok {
		return l, false
	}
	if l.sig, ok = next(64); !ok {
		return l, false
	}
	if l.att, ok = next(64); !ok {
		return l, false
	}
	if l.v4 {
		if l.outer, ok = next(6); !ok {
			return l, false
		}
	}
	if l.qeRep, ok = next(384); !ok {
		return l, false
	}
	if l.qeSig, ok = next(64); !ok {
		return l, false
	}
	if l.authLen, ok = next(2); !ok {
		return l, false
	}
	if l.auth, ok = next(le16(b[l.authLen.a:])); !ok {
		return l, false
	}
	if l.certType, ok = next(2); !ok {
		return l, false
	}
	if l.certLen, ok = next(4); !ok {
		return l, false
	}
	if l.cert, ok = next(le32(b[l.certLen.a:])); !ok {
		return l, false
	}
	l.trailing = span{o, len(b)}
	l.total = len(b)
	return l, true
}

// parts is a quote split into its fields; build() re-assembles it with consistent length fields.
type parts struct {
	v4                                       bool
	hdr, body, sig, att, qeRep, qeSig, auth  []byte
	certType                                 uint16
	cert, trailing                           []byte
	outerType                                uint16
	sigLenDelta, certLenDelta, outerLenDelta int // deliberate inconsistencies
}

func cp(b []byte) []byte { return append([]byte{}, b...) }

func splitParts(b []byte, l layout) parts {
	p := parts{v4: l.v4, outerType: 6}
	p.hdr, p.body, p.sig, p.att = cp(b[l.hdr.a:l.hdr.b]), cp(b[l.body.a:l.body.b]), cp(b[l.sig.a:l.sig.b]), cp(b[l.att.a:l.att.b])
	p.qeRep, p.qeSig, p.auth = cp(b[l.qeRep.a:l.qeRep.b]), cp(b[l.qeSig.a:l.qeSig.b]), cp(b[l.auth.a:l.auth.b])
	p.certType = uint16(le16(b[l.certType.a:]))
	p.cert, p.trailing = cp(b[l.cert.a:l.cert.b]), cp(b[l.trailing.a:l.trailing.b])
	return p
}

func (p parts) build() []byte {
	var inner []byte // QE report certification data
	inner = append(inner, p.qeRep...)
	inner = append(inner, p.qeSig...)
	inner = binary.LittleEndian.AppendUint16(inner, uint16(len(p.auth)))
	inner = append(inner, p.auth...)
	inner = binary.LittleEndian.AppendUint16(inner, p.certType)
	inner = binary.LittleEndian.AppendUint32(inner, uint32(len(p.cert)+p.certLenDelta))
	inner = append(inner, p.cert...)
	inner = append(inner, p.trailing...)
	var sigArea []byte
	sigArea = append(sigArea, p.sig...)
	sigArea = append(sigArea, p.att...)
	if p.v4 {
		sigArea = binary.LittleEndian.AppendUint16(sigArea, p.outerType)
		sigArea = binary.LittleEndian.AppendUint32(sigArea, uint32(len(inner)+p.outerLenDelta))
	}
	sigArea = append(sigArea, inner...)
	var out []byte
	out = append(out, p.hdr...)
	out = append(out, p.body...)
	out = binary.LittleEndian.AppendUint32(out, uint32(len(sigArea)+p.sigLenDelta))
	out = append(out, sigArea...)
	return out
}

// collateral is one set of raw collateral files.
type collateral struct {
	name              string
	tcbFile, qeFile   []byte
	certs             []byte
	tcbIssue, tcbNext time.Time
	qeIssue, qeNext   time.Time
	tcbEval, qeEval   uint32
	tcbFMSPC          string // as written in the TCB info
	tcbID, qeID       string
	tcbInner, qeInner []byte // the signed objects, exactly as json.RawMessage keeps them
}

type signedBody struct {
	ID         string `json:"id"`
	IssueDate  string `json:"issueDate"`
	NextUpdate string `json:"nextUpdate"`
	FMSPC      string `json:"fmspc"`
	Eval       uint32 `json:"tcbEvaluationDataNumber"`
}

func loadCollateral(name, tcb, qe, certs string) (*collateral, error) {
	c := &collateral{name: name}
	var err error
	if c.tcbFile, err = readFixture(tcb); err != nil {
		return nil, err
	}
	if c.qeFile, err = readFixture(qe); err != nil {
		return nil, err
	}
	if c.certs, err = readFixture(certs); err != nil {
		return nil, err
	}
	var st struct {
		Body json.RawMessage `json:"tcbInfo"`
	}
	var sq struct {
		Body json.RawMessage `json:"enclaveIdentity"`
	}
	if err = json.Unmarshal(c.tcbFile, &st); err != nil {
		return nil, err
	}
	if err = json.Unmarshal(c.qeFile, &sq); err != nil {
		return nil, err
	}
	c.tcbInner, c.qeInner = st.Body, sq.Body
	var tb, qb signedBody
	if err = json.Unmarshal(st.Body, &tb); err != nil {
		return nil, err
	}
	if err = json.Unmarshal(sq.Body, &qb); err != nil {
		return nil, err
	}
	if c.tcbIssue, err = time.Parse(time.RFC3339, tb.IssueDate); err != nil {
		return nil, err
	}
	if c.tcbNext, err = time.Parse(time.RFC3339, tb.NextUpdate); err != nil {
		return nil, err
	}
	if c.qeIssue, err = time.Parse(time.RFC3339, qb.IssueDate); err != nil {
		return nil, err
	}
	if c.qeNext, err = time.Parse(time.RFC3339, qb.NextUpdate); err != nil {
		return nil, err
	}
	c.tcbEval, c.qeEval, c.tcbFMSPC, c.tcbID, c.qeID = tb.Eval, qb.Eval, tb.FMSPC, tb.ID, qb.ID
	return c, nil
}

// bundleOf turns raw collateral files into the bundle the way a node does (JSON decoding of
// the PCS responses). ok=false when the files are not even JSON.
func bundleOf(tcbFile, qeFile, certs []byte) (pcs.TCBBundle, bool) {
	var b pcs.TCBBundle
	if err := json.Unmarshal(tcbFile, &b.TCBInfo); err != nil {
		return b, false
	}
	if err := json.Unmarshal(qeFile, &b.QEIdentity); err != nil {
		return b, false
	}
	b.Certificates = certs
	return b, true
}

type vector struct {
	name         string
	tdx          bool
	quote        []byte
	lay          layout
	col          *collateral
	bundle       pcs.TCBBundle
	ts           time.Time
	policy       pcs.QuotePolicy
	want         sgx.VerifiedQuote
	fmspc        string   // upper-case hex of the FMSPC in the PCK leaf certificate (test's own ASN.1 walk)
	pck          [][]byte // PEM blocks of the PCK chain (leaf, intermediate, root), each with its trailing newline
	pckX         []*x509.Certificate
	tcbX         []*x509.Certificate
	mrSeam       [48]byte
	mrSignerSeam [48]byte
}

var (
	oidSGXExt   = asn1.ObjectIdentifier{1, 2, 840, 113741, 1, 13, 1}
	oidSGXFMSPC = asn1.ObjectIdentifier{1, 2, 840, 113741, 1, 13, 1, 4}
)

func fmspcOf(cert *x509.Certificate) (string, error) {
	for _, e := range cert.Extensions {
		if !e.Id.Equal(oidSGXExt) {
			continue
		}
		var seq []struct {
			ID asn1.ObjectIdentifier
			V  asn1.RawValue
		}
		if _, err := asn1.Unmarshal(e.Value, &seq); err != nil {
			return "", err
		}
		for _, s := range seq {
			if s.ID.Equal(oidSGXFMSPC) {
				return strings.ToUpper(hex.EncodeToString(s.V.Bytes)), nil
			}
		}
	}
	return "", fmt.Errorf("no FMSPC extension")
}

// splitPEM splits a PEM bundle into blocks (each ending after its END line and newline) and the rest.
func splitPEM(b []byte) (blocks [][]byte, rest []byte) {
	const end = "-----END CERTIFICATE-----"
	for {
		i := bytes.Index(b, []byte(end))
		if i < 0 {
			return blocks, b
		}
		j := i + len(end)
		for j < len(b) && (b[j] == '\n' || b[j] == '\r') {
			j++
		}
		blocks = append(blocks, cp(b[:j]))
		b = b[j:]
	}
}

func parsePEMCerts(b []byte) ([]*x509.Certificate, error) {
	var out []*x509.Certificate
	for {
		var blk *pem.Block
		blk, b = pem.Decode(b)
		if blk == nil {
			return out, nil
		}
		c, err := x509.ParseCertificate(blk.Bytes)
		if err != nil {
			return nil, err
		}
		out = append(out, c)
	}
}

type fixtures struct {
	vecs     []*vector
	cols     []*collateral // all collateral sets (including the ones of no accepted vector)
	badCerts []byte
	otherQ   [][]byte // other quotes of the repo (donors for splices)
	forger   *ecdsa.PrivateKey
	forgerPK []byte          // X||Y
	selfPEM  []byte          // self-signed "TCB signing" certificate of the forger key
	genuine  map[string]bool // sha256 of every genuinely Intel-signed inner object among the fixtures
}

var (
	fixOnce sync.Once
	fix     *fixtures
	fixErr  error
)

func loadFixtures() (*fixtures, error) {
	fixOnce.Do(func() { fix, fixErr = doLoadFixtures() })
	return fix, fixErr
}

func doLoadFixtures() (*fixtures, error) {
	f := &fixtures{genuine: map[string]bool{}}
	const certs = "tcb_info_v3_fmspc_00606A000000_certs.pem"
	sgxCol, err := loadCollateral("sgx-00606A", "tcb_info_v3_fmspc_00606A000000.json", "qe_identity_v2.json", certs)
	if err != nil {
		return nil, err
	}
	tdxCol, err := loadCollateral("tdx-C0806F", "tcb_info_v3_tdx_fmspc_C0806F000000.json", "qe_identity_v2_tdx2.json", certs)
	if err != nil {
		return nil, err
	}
	tdxOld, err := loadCollateral("tdx-50806F", "tcb_info_v3_tdx_fmspc_50806F000000.json", "qe_identity_v2_tdx.json", certs)
	if err != nil {
		return nil, err
	}
	f.cols = []*collateral{sgxCol, tdxCol, tdxOld}
	for _, c := range f.cols {
		f.genuine[hashHex(c.tcbInner)] = true
		f.genuine[hashHex(c.qeInner)] = true
	}
	if f.badCerts, err = readFixture("tcb_info_v3_fmspc_00606A000000_certs_bad.pem"); err != nil {
		return nil, err
	}
	for _, n := range []string{"quote_v3_ecdsa_p256_eppid.bin", "quote_v4_tdx_ecdsa_p256_out_of_date.bin"} {
		b, err := readFixture(n)
		if err != nil {
			return nil, err
		}
		f.otherQ = append(f.otherQ, b)
	}
	mk := func(name, file string, tdx bool, col *collateral, ts int64, pol pcs.QuotePolicy) (*vector, error) {
		v := &vector{name: name, tdx: tdx, col: col, ts: time.Unix(ts, 0).UTC(), policy: pol}
		var err error
		if v.quote, err = readFixture(file); err != nil {
			return nil, err
		}
		var ok bool
		if v.lay, ok = parseLayout(v.quote); !ok {
			return nil, fmt.Errorf("%s: test layout parser cannot decode the fixture", name)
		}
		if v.bundle, ok = bundleOf(col.tcbFile, col.qeFile, col.certs); !ok {
			return nil, fmt.Errorf("%s: collateral is not JSON", name)
		}
		var q pcs.Quote
		if err = q.UnmarshalBinary(v.quote); err != nil {
			return nil, fmt.Errorf("%s: known-good quote does not parse: %w", name, err)
		}
		p := v.policy
		vq, err := q.Verify(&p, v.ts, &v.bundle)
		if err != nil {
			return nil, fmt.Errorf("%s: known-good vector does not verify: %w", name, err)
		}
		v.want = *vq
		v.want.ReportData = cp(vq.ReportData)
		lp := laxPolicy()
		if _, err = q.Verify(&lp, v.ts, &v.bundle); err != nil {
			return nil, fmt.Errorf("%s: known-good vector does not verify under the permissive policy: %w", name, err)
		}
		// the expected output, recomputed from the raw bytes at the documented offsets
		body := v.quote[v.lay.body.a:v.lay.body.b]
		if !tdx {
			if !bytes.Equal(v.want.Identity.MrEnclave[:], body[64:96]) || !bytes.Equal(v.want.Identity.MrSigner[:], body[128:160]) || !bytes.Equal(v.want.ReportData, body[320:384]) {
				return nil, fmt.Errorf("%s: verified identity is not the one at the documented report offsets", name)
			}
		} else {
			if !bytes.Equal(v.want.ReportData, body[520:584]) {
				return nil, fmt.Errorf("%s: verified report data is not the one at the documented TD report offset", name)
			}
			copy(v.mrSeam[:], body[16:64])
			copy(v.mrSignerSeam[:], body[64:112])
		}
		var rest []byte
		v.pck, rest = splitPEM(v.quote[v.lay.cert.a:v.lay.cert.b])
		_ = rest
		if v.pckX, err = parsePEMCerts(v.quote[v.lay.cert.a:v.lay.cert.b]); err != nil || len(v.pckX) != 3 || len(v.pck) != 3 {
			return nil, fmt.Errorf("%s: PCK chain: %v (%d certs)", name, err, len(v.pckX))
		}
		if v.tcbX, err = parsePEMCerts(col.certs); err != nil || len(v.tcbX) != 2 {
			return nil, fmt.Errorf("%s: TCB chain: %v", name, err)
		}
		if v.fmspc, err = fmspcOf(v.pckX[0]); err != nil {
			return nil, fmt.Errorf("%s: %w", name, err)
		}
		if !strings.EqualFold(v.fmspc, col.tcbFMSPC) {
			return nil, fmt.Errorf("%s: fixture FMSPC %s vs TCB info %s", name, v.fmspc, col.tcbFMSPC)
		}
		return v, nil
	}
	v1, err := mk("sgx-v3-pck-chain", "quote_v3_ecdsa_p256_pck_chain.bin", false, sgxCol, 1671497404,
		pcs.QuotePolicy{TCBValidityPeriod: 30, MinTCBEvaluationDataNumber: pcs.DefaultMinTCBEvaluationDataNumber})
	if err != nil {
		return nil, err
	}
	v2, err := mk("tdx-v4", "quote_v4_tdx_ecdsa_p256.bin", true, tdxCol, 1725263032,
		pcs.QuotePolicy{TCBValidityPeriod: 30, MinTCBEvaluationDataNumber: 12, TDX: &pcs.TdxQuotePolicy{}})
	if err != nil {
		return nil, err
	}
	f.vecs = []*vector{v1, v2}

	// The forger: a fixed P-256 key that is not Intel's nor the platform's.
	d := sha256.Sum256([]byte("verif C18 forger key"))
	if f.forger, err = ecdsa.ParseRawPrivateKey(elliptic.P256(), d[:]); err != nil {
		return nil, fmt.Errorf("forger key: %w", err)
	}
	pkb, err := f.forger.PublicKey.Bytes()
	if err != nil {
		return nil, err
	}
	f.forgerPK = pkb[1:]
	tmpl := &x509.Certificate{
		SerialNumber: big.NewInt(18), Subject: pkix.Name{CommonName: "Intel SGX TCB Signing"},
		NotBefore: time.Unix(1500000000, 0), NotAfter: time.Unix(2500000000, 0),
		KeyUsage: x509.KeyUsageDigitalSignature, BasicConstraintsValid: true,
	}
	der, err := x509.CreateCertificate(nil, tmpl, tmpl, &f.forger.PublicKey, f.forger)
	if err != nil {
		return nil, fmt.Errorf("self-signed certificate: %w", err)
	}
	f.selfPEM = pem.EncodeToMemory(&pem.Block{Type: "CERTIFICATE", Bytes: der})
	return f, nil
}

func hashHex(b []byte) string { h := sha256.Sum256(b); return hex.EncodeToString(h[:8]) }

// forgeSig signs msg (hashed with SHA-256) with the forger key, deterministically (RFC 6979),
// and returns r||s.
func (f *fixtures) forgeSig(msg ...[]byte) []byte {
	h := sha256.New()
	for _, m := range msg {
		h.Write(m)
	}
	der, err := f.forger.Sign(nil, h.Sum(nil), crypto.SHA256)
	if err != nil {
		panic(err)
	}
	var rs struct{ R, S *big.Int }
	if _, err = asn1.Unmarshal(der, &rs); err != nil {
		panic(err)
	}
	out := make([]byte, 64)
	rs.R.FillBytes(out[:32])
	rs.S.FillBytes(out[32:])
	return out
}

// ---------------------------------------------------------------------------------------------
// Fields of a quote (for field-aware mutation)
// ---------------------------------------------------------------------------------------------

type field struct {
	name string
	span
}

var sgxReportFields = []field{
	{"cpuSvn", span{0, 16}}, {"miscSelect", span{16, 20}}, {"reserved1", span{20, 48}}, {"attributes", span{48, 64}},
	{"mrEnclave", span{64, 96}}, {"reserved2", span{96, 128}}, {"mrSigner", span{128, 160}}, {"reserved3", span{160, 256}},
	{"isvProdID", span{256, 258}}, {"isvSvn", span{258, 260}}, {"reserved4", span{260, 320}}, {"reportData", span{320, 384}},
}

var tdReportFields = []field{
	{"teeTcbSvn", span{0, 16}}, {"mrSeam", span{16, 64}}, {"mrSignerSeam", span{64, 112}}, {"seamAttributes", span{112, 120}},
	{"tdAttributes", span{120, 128}}, {"xfam", span{128, 136}}, {"mrTd", span{136, 184}}, {"mrConfigID", span{184, 232}},
	{"mrOwner", span{232, 280}}, {"mrOwnerConfig", span{280, 328}}, {"rtmr0", span{328, 376}}, {"rtmr1", span{376, 424}},
	{"rtmr2", span{424, 472}}, {"rtmr3", span{472, 520}}, {"reportData", span{520, 584}},
}

var headerFields = []field{
	{"version", span{0, 2}}, {"attKeyType", span{2, 4}}, {"teeTypeOrReserved", span{4, 8}}, {"svnOrReserved", span{8, 12}},
	{"qeVendorID", span{12, 28}}, {"userData", span{28, 48}},
}

func (v *vector) fields() []field {
	l := v.lay
	var out []field
	add := func(prefix string, base int, fs []field) {
		for _, f := range fs {
			out = append(out, field{prefix + f.name, span{base + f.a, base + f.b}})
		}
	}
	add("hdr.", l.hdr.a, headerFields)
	if l.body.len() == 384 {
		add("body.", l.body.a, sgxReportFields)
	} else {
		add("body.", l.body.a, tdReportFields)
	}
	out = append(out, field{"sigLen", l.sigLen}, field{"sig.r", span{l.sig.a, l.sig.a + 32}}, field{"sig.s", span{l.sig.a + 32, l.sig.b}},
		field{"attKey.x", span{l.att.a, l.att.a + 32}}, field{"attKey.y", span{l.att.a + 32, l.att.b}})
	if l.v4 {
		out = append(out, field{"outer.type", span{l.outer.a, l.outer.a + 2}}, field{"outer.size", span{l.outer.a + 2, l.outer.b}})
	}
	add("qe.", l.qeRep.a, sgxReportFields)
	out = append(out, field{"qeSig.r", span{l.qeSig.a, l.qeSig.a + 32}}, field{"qeSig.s", span{l.qeSig.a + 32, l.qeSig.b}},
		field{"authLen", l.authLen}, field{"auth", l.auth}, field{"certType", l.certType}, field{"certLen", l.certLen})
	o := l.cert.a
	for i, b := range v.pck {
		out = append(out, field{fmt.Sprintf("pem%d", i), span{o, o + len(b)}})
		o += len(b)
	}
	if o < l.cert.b {
		out = append(out, field{"pemTail", span{o, l.cert.b}})
	}
	return out
}

// ---------------------------------------------------------------------------------------------
// Verification wrapper, error stages, oracles
// ---------------------------------------------------------------------------------------------

// stageOf maps an error of the code under test to the verification stage that rejected.
func stageOf(err error) string {
	if err == nil {
		return "accepted"
	}
	s := err.Error()
	has := func(x string) bool { return strings.Contains(s, x) }
	switch {
	case has("disabled by policy"):
		return "policy-disabled"
	case has("blacklisted MRSIGNER"):
		return "mrsigner-blacklist"
	case has("debug/production"):
		return "debug-flag"
	case has("TEE type not allowed"):
		return "tdx-not-allowed"
	case has("TDX module not allowed"):
		return "tdx-module-not-allowed"
	case has("no PCK certificate chain"), has("failed to verify PCK certificate chain"), has("unexpected root in certificate chain"),
		has("pcs/quote: unexpected certificate chain length"), has("pcs/quote: unexpected number of chains"):
		return "pck-chain"
	case has("bad X509 SGX extensions"), has("FMSPC value"), has("bad FMSPC"), has("missing FMSPC"), has("bad TCB"), has("bad PCESVN"), has("bad CPUSVN"), has("non-ECDSA"):
		if has("pcs/tcb") {
			return "tcb-chain"
		}
		return "pck-extensions"
	case has("failed to verify QE report signature"):
		return "qe-report-sig"
	case has("QE report data does not match"):
		return "qe-binding"
	case has("missing TCB bundle"):
		return "tcb-missing"
	case has("failed to verify TCB bundle"):
		switch {
		case has("TCB signature verification failed"), has("malformed signature"), has("encoding/hex"):
			return "tcb-signature"
		case has("certificate chain"), has("bad X509 certificate in TCB bundle"), has("unexpected number of chains"):
			return "tcb-chain"
		case has("issue date in the future"):
			return "tcb-not-yet-valid"
		case has("expired"):
			return "tcb-expired"
		case has("evaluation data number"):
			return "tcb-evalnum"
		case has("not whitelisted"):
			return "tcb-whitelist"
		case has("is blacklisted"):
			return "tcb-blacklist"
		case has("FMSPC"):
			return "tcb-fmspc"
		case has("unexpected TCB info identifier"), has("unexpected QE identity ID"), has("version"):
			return "tcb-id-version"
		case has("TCB level"), has("not up to date"), has("TDX module"):
			return "tcb-level"
		case has("invalid QE"), has("malformed"):
			return "tcb-qe-identity"
		}
		return "tcb-other"
	case has("invalid attestation public key"):
		return "att-key-invalid"
	case has("failed to verify quote signature"):
		return "quote-signature"
	}
	return "other"
}

type verdict struct {
	parsed   bool
	vq       *sgx.VerifiedQuote
	err      error
	viaBndle bool
}

// runVerify parses and verifies a quote the way callers do. viaBundle selects the
// QuoteBundle.Verify entry point instead of Quote.Verify.
func runVerify(quote []byte, bundle *pcs.TCBBundle, ts time.Time, pol *pcs.QuotePolicy, viaBundle bool) verdict {
	var q pcs.Quote
	perr := q.UnmarshalBinary(quote)
	if perr != nil || viaBundle {
		qb := pcs.QuoteBundle{Quote: quote, TCB: *bundle}
		vq, err := qb.Verify(pol, ts)
		return verdict{parsed: perr == nil, vq: vq, err: err, viaBndle: true}
	}
	vq, err := q.Verify(pol, ts, bundle)
	return verdict{parsed: true, vq: vq, err: err}
}

func diffSummary(orig, m []byte) string {
	var sb strings.Builder
	fmt.Fprintf(&sb, "len %d->%d;", len(orig), len(m))
	n := 0
	for i := 0; i < len(m) && i < len(orig); i++ {
		if orig[i] != m[i] {
			if n < 24 {
				fmt.Fprintf(&sb, " @%d:%02x->%02x", i, orig[i], m[i])
			}
			n++
		}
	}
	fmt.Fprintf(&sb, " (%d bytes differ in the common prefix)", n)
	return sb.String()
}

// checkAcceptedQuote is the oracle for a mutant quote that was accepted under collateral that is
// the vector's own. It returns the list of (unsigned) regions in which the mutant differs.
func checkAcceptedQuote(t ev.Failer, v *vector, m []byte, vd verdict, desc string) []string {
	if !vd.parsed {
		ev.Violation(t, "accepted-unparsable", "%s: %s: QuoteBundle.Verify accepted a quote that Quote.UnmarshalBinary rejects; %s (full mutant in the trace file)", v.name, desc, diffSummary(v.quote, m))
	}
	vq := vd.vq
	if vq == nil {
		ev.Violation(t, "accepted-nil", "%s: %s: nil error and nil VerifiedQuote", v.name, desc)
	}
	if vq.Identity.MrEnclave != v.want.Identity.MrEnclave || vq.Identity.MrSigner != v.want.Identity.MrSigner || !bytes.Equal(vq.ReportData, v.want.ReportData) {
		ev.Violation(t, "identity-changed", "%s: %s: mutant accepted with a different verified identity/report data: got mrenclave=%s mrsigner=%s reportdata=%x, original mrenclave=%s mrsigner=%s reportdata=%x; %s",
			v.name, desc, vq.Identity.MrEnclave, vq.Identity.MrSigner, vq.ReportData, v.want.Identity.MrEnclave, v.want.Identity.MrSigner, v.want.ReportData, diffSummary(v.quote, m))
	}
	l2, ok := parseLayout(m)
	if !ok {
		ev.Violation(t, "layout-disagreement", "%s: %s: accepted quote cannot be decoded by the test's reading of the wire format; %s (full mutant in the trace file)", v.name, desc, diffSummary(v.quote, m))
	}
	o := v.quote
	l := v.lay
	// Everything the signature chain covers must be byte-identical in an accepted mutant:
	// header and report body (attestation key signature), attestation key and authentication
	// data (hash in the QE report data), QE report (PCK signature).
	for _, r := range []struct {
		name string
		a, b []byte
	}{
		{"header", o[l.hdr.a:l.hdr.b], m[l2.hdr.a:l2.hdr.b]},
		{"report-body", o[l.body.a:l.body.b], m[l2.body.a:l2.body.b]},
		{"attestation-key", o[l.att.a:l.att.b], m[l2.att.a:l2.att.b]},
		{"qe-report", o[l.qeRep.a:l.qeRep.b], m[l2.qeRep.a:l2.qeRep.b]},
		{"qe-auth-data", o[l.auth.a:l.auth.b], m[l2.auth.a:l2.auth.b]},
	} {
		if !bytes.Equal(r.a, r.b) {
			ev.Violation(t, "signed-bytes-changed", "%s: %s: mutant accepted although its %s (covered by the signature chain) differs from the signed original; %s (full mutant in the trace file)", v.name, desc, r.name, diffSummary(v.quote, m))
		}
	}
	var regions []string
	if !bytes.Equal(o[l.sig.a:l.sig.b], m[l2.sig.a:l2.sig.b]) {
		regions = append(regions, "quote-signature")
	}
	if !bytes.Equal(o[l.qeSig.a:l.qeSig.b], m[l2.qeSig.a:l2.qeSig.b]) {
		regions = append(regions, "qe-report-signature")
	}
	if !bytes.Equal(o[l.certType.a:l.certType.b], m[l2.certType.a:l2.certType.b]) {
		regions = append(regions, "cert-type")
	}
	if !bytes.Equal(o[l.cert.a:l.cert.b], m[l2.cert.a:l2.cert.b]) {
		regions = append(regions, "pck-pem")
	}
	if l2.trailing.len() != l.trailing.len() {
		regions = append(regions, "trailing-in-signature-area")
	}
	if len(regions) == 0 {
		regions = append(regions, "length-fields-only")
	}
	return regions
}

var p256N = elliptic.P256().Params().N

func negS(sig []byte) []byte {
	out := cp(sig)
	s := new(big.Int).SetBytes(sig[32:])
	s.Sub(p256N, s)
	s.Mod(s, p256N)
	s.FillBytes(out[32:])
	return out
}

func addN(sig []byte, which int) ([]byte, bool) {
	out := cp(sig)
	x := new(big.Int).SetBytes(sig[which*32 : which*32+32])
	x.Add(x, p256N)
	if x.BitLen() > 256 {
		return nil, false
	}
	x.FillBytes(out[which*32 : which*32+32])
	return out, true
}

// ---------------------------------------------------------------------------------------------
// Quote mutators
// ---------------------------------------------------------------------------------------------

var quoteKinds = []string{
	"bit-any", "bit-any", "bit-field", "bit-field", "bit-field", "byte-field", "byte-field", "multi-byte", "splice", "splice",
	"field-from-donor", "fill-field", "len-raw", "len-consistent", "cert-type", "outside-append", "hdr-semantic",
	"pem-reorder", "pem-drop-dup", "pem-foreign", "pem-text", "pem-b64", "sig-malleate", "att-key-special",
	"resign", "resign", "resign-bind", "resign-header", "resign-full-chain",
}

func interestingByte(t *rapid.T, old byte) byte {
	switch rapid.IntRange(0, 6).Draw(t, "bytePick") {
	case 0:
		return 0
	case 1:
		return 0xff
	case 2:
		return old + 1
	case 3:
		return old - 1
	case 4:
		return old ^ 0x80
	case 5:
		return old ^ 0x01
	}
	return rapid.Byte().Draw(t, "byteVal")
}

func (f *fixtures) donors(v *vector) [][]byte {
	var out [][]byte
	for _, o := range f.vecs {
		if o != v {
			out = append(out, o.quote)
		}
	}
	return append(out, f.otherQ...)
}

// mutateQuote draws one mutant of v.quote. The description is enough to rebuild it by hand.
func (f *fixtures) mutateQuote(t *rapid.T, v *vector) (m []byte, kind, desc string) {
	kind = rapid.SampledFrom(quoteKinds).Draw(t, "kind")
	o := v.quote
	m = cp(o)
	l := v.lay
	fields := v.fields()
	pickField := func() field { return fields[rapid.IntRange(0, len(fields)-1).Draw(t, "field")] }
	switch kind {
	case "bit-any":
		bit := rapid.IntRange(0, len(o)*8-1).Draw(t, "bit")
		m[bit/8] ^= 1 << (bit % 8)
		desc = fmt.Sprintf("flip bit %d", bit)
	case "bit-field":
		fl := pickField()
		bit := rapid.IntRange(0, fl.len()*8-1).Draw(t, "bit")
		m[fl.a+bit/8] ^= 1 << (bit % 8)
		desc = fmt.Sprintf("flip bit %d of %s (byte %d)", bit, fl.name, fl.a+bit/8)
	case "byte-field":
		fl := pickField()
		off := rapid.IntRange(0, fl.len()-1).Draw(t, "off")
		m[fl.a+off] = interestingByte(t, m[fl.a+off])
		desc = fmt.Sprintf("set byte %d (%s+%d) to %02x", fl.a+off, fl.name, off, m[fl.a+off])
	case "multi-byte":
		n := rapid.IntRange(2, 8).Draw(t, "n")
		var sb strings.Builder
		for i := 0; i < n; i++ {
			fl := pickField()
			off := rapid.IntRange(0, fl.len()-1).Draw(t, "off")
			m[fl.a+off] = interestingByte(t, m[fl.a+off])
			fmt.Fprintf(&sb, " %d(%s)=%02x", fl.a+off, fl.name, m[fl.a+off])
		}
		desc = "set bytes" + sb.String()
	case "splice":
		fl := pickField()
		n := rapid.IntRange(1, 64).Draw(t, "n")
		dst := fl.a + rapid.IntRange(0, fl.len()-1).Draw(t, "dstOff")
		if dst+n > len(m) {
			n = len(m) - dst
		}
		var src []byte
		switch rapid.IntRange(0, 3).Draw(t, "srcKind") {
		case 0:
			src = rapid.SliceOfN(rapid.Byte(), n, n).Draw(t, "bytes")
			desc = fmt.Sprintf("overwrite %d bytes at %d (%s) with %x", n, dst, fl.name, src)
		case 1:
			so := rapid.IntRange(0, len(o)-n).Draw(t, "srcOff")
			src = o[so : so+n]
			desc = fmt.Sprintf("copy %d bytes from own offset %d to %d (%s)", n, so, dst, fl.name)
		default:
			ds := f.donors(v)
			di := rapid.IntRange(0, len(ds)-1).Draw(t, "donor")
			d := ds[di]
			so := dst // same offset in the donor by default: same field of another genuine quote
			if rapid.Bool().Draw(t, "otherOff") || so+n > len(d) {
				so = rapid.IntRange(0, len(d)-n).Draw(t, "srcOff")
			}
			src = d[so : so+n]
			desc = fmt.Sprintf("copy %d bytes from donor %d offset %d to %d (%s)", n, di, so, dst, fl.name)
		}
		copy(m[dst:dst+n], src)
	case "field-from-donor":
		ds := f.donors(v)
		di := rapid.IntRange(0, len(ds)-1).Draw(t, "donor")
		dl, ok := parseLayout(ds[di])
		if !ok {
			return o, kind, "donor undecodable"
		}
		p, d := splitParts(o, l), splitParts(ds[di], dl)
		mask := rapid.IntRange(1, 1<<10-2).Draw(t, "mask")
		names := []string{"hdr", "body", "sig", "att", "qeRep", "qeSig", "auth", "certType", "cert", "trailing"}
		var took []string
		for i, nm := range names {
			if mask&(1<<i) == 0 {
				continue
			}
			took = append(took, nm)
			switch nm {
			case "hdr":
				p.hdr, p.v4 = d.hdr, d.v4
			case "body":
				p.body = d.body
			case "sig":
				p.sig = d.sig
			case "att":
				p.att = d.att
			case "qeRep":
				p.qeRep = d.qeRep
			case "qeSig":
				p.qeSig = d.qeSig
			case "auth":
				p.auth = d.auth
			case "certType":
				p.certType = d.certType
			case "cert":
				p.cert = d.cert
			case "trailing":
				p.trailing = d.trailing
			}
		}
		m = p.build()
		desc = fmt.Sprintf("take %v from donor %d, lengths consistent", took, di)
	case "fill-field":
		fl := pickField()
		val := rapid.SampledFrom([]byte{0x00, 0xff, 0x01, 0x41}).Draw(t, "fill")
		for i := fl.a; i < fl.b; i++ {
			m[i] = val
		}
		desc = fmt.Sprintf("fill %s with %02x", fl.name, val)
	case "len-raw":
		which := rapid.SampledFrom([]string{"sigLen", "authLen", "certLen", "outerSize"}).Draw(t, "which")
		delta := rapid.SampledFrom([]int{-300, -64, -8, -2, -1, 1, 2, 8, 64, 300, 65536}).Draw(t, "delta")
		switch which {
		case "sigLen":
			binary.LittleEndian.PutUint32(m[l.sigLen.a:], uint32(le32(o[l.sigLen.a:])+delta))
		case "authLen":
			binary.LittleEndian.PutUint16(m[l.authLen.a:], uint16(le16(o[l.authLen.a:])+delta))
		case "certLen":
			binary.LittleEndian.PutUint32(m[l.certLen.a:], uint32(le32(o[l.certLen.a:])+delta))
		case "outerSize":
			if !l.v4 {
				return o, kind, "no outer size in v3"
			}
			binary.LittleEndian.PutUint32(m[l.outer.a+2:], uint32(le32(o[l.outer.a+2:])+delta))
		}
		desc = fmt.Sprintf("%s %+d without moving bytes", which, delta)
	case "len-consistent":
		p := splitParts(o, l)
		which := rapid.SampledFrom([]string{"cert-trunc", "cert-trunc", "cert-append", "trailing-append", "auth-grow", "auth-shrink", "certLen-short", "certLen-long"}).Draw(t, "which")
		n := rapid.IntRange(1, 40).Draw(t, "n")
		filler := func() []byte {
			switch rapid.IntRange(0, 3).Draw(t, "filler") {
			case 0:
				return bytes.Repeat([]byte{0}, n)
			case 1:
				return bytes.Repeat([]byte{'\n'}, n)
			case 2:
				return append([]byte("garbage "), bytes.Repeat([]byte{'x'}, n)...)
			}
			return rapid.SliceOfN(rapid.Byte(), n, n).Draw(t, "fillBytes")
		}
		switch which {
		case "cert-trunc":
			p.cert = p.cert[:len(p.cert)-n]
			desc = fmt.Sprintf("cut the last %d bytes of the PEM chain", n)
		case "cert-append":
			x := filler()
			p.cert = append(p.cert, x...)
			desc = fmt.Sprintf("append %x to the PEM chain", x)
		case "trailing-append":
			x := filler()
			p.trailing = append(p.trailing, x...)
			desc = fmt.Sprintf("append %x after the certification data inside the signature area", x)
		case "auth-grow":
			x := filler()
			p.auth = append(p.auth, x...)
			desc = fmt.Sprintf("append %x to the QE authentication data", x)
		case "auth-shrink":
			if n > len(p.auth) {
				n = len(p.auth)
			}
			p.auth = p.auth[:len(p.auth)-n]
			desc = fmt.Sprintf("cut %d bytes of the QE authentication data", n)
		case "certLen-short":
			p.certLenDelta = -n
			desc = fmt.Sprintf("certification data size %d smaller than the data (rest becomes ignored)", n)
		case "certLen-long":
			p.certLenDelta = n
			desc = fmt.Sprintf("certification data size %d larger than the data", n)
		}
		m = p.build()
		desc += ", other lengths consistent"
	case "cert-type":
		ct := rapid.SampledFrom([]int{0, 1, 2, 3, 4, 6, 7, 8, 0x105, 0xffff}).Draw(t, "certType")
		binary.LittleEndian.PutUint16(m[l.certType.a:], uint16(ct))
		if l.v4 && rapid.Bool().Draw(t, "outer") {
			m = cp(o)
			binary.LittleEndian.PutUint16(m[l.outer.a:], uint16(ct))
			desc = fmt.Sprintf("outer certification data type = %d", ct)
		} else {
			desc = fmt.Sprintf("certification data type = %d", ct)
		}
	case "outside-append":
		x := rapid.SliceOfN(rapid.Byte(), 1, 32).Draw(t, "extra")
		m = append(m, x...)
		if rapid.Bool().Draw(t, "truncInstead") {
			n := rapid.IntRange(1, 64).Draw(t, "n")
			m = cp(o[:len(o)-n])
			desc = fmt.Sprintf("drop the last %d bytes", n)
		} else {
			desc = fmt.Sprintf("append %x after the quote", x)
		}
	case "hdr-semantic":
		switch rapid.IntRange(0, 5).Draw(t, "what") {
		case 0:
			ver := rapid.SampledFrom([]int{0, 1, 2, 3, 4, 5}).Draw(t, "ver")
			binary.LittleEndian.PutUint16(m[0:], uint16(ver))
			desc = fmt.Sprintf("version=%d", ver)
		case 1:
			kt := rapid.SampledFrom([]int{0, 1, 3, 0x102}).Draw(t, "akt")
			binary.LittleEndian.PutUint16(m[2:], uint16(kt))
			desc = fmt.Sprintf("attestation key type=%d", kt)
		case 2:
			tt := rapid.SampledFrom([]uint32{0, 0x81, 0x80, 1, 0x8100}).Draw(t, "tee")
			binary.LittleEndian.PutUint32(m[4:], tt)
			desc = fmt.Sprintf("tee type / reserved = %#x", tt)
		case 3:
			d := rapid.SampledFrom([]int{-1, 1, 2}).Draw(t, "d")
			off := rapid.SampledFrom([]int{8, 10}).Draw(t, "off")
			binary.LittleEndian.PutUint16(m[off:], uint16(le16(o[off:])+d))
			desc = fmt.Sprintf("header u16 at %d %+d (qe svn / pce svn / reserved)", off, d)
		case 4:
			i := rapid.IntRange(12, 27).Draw(t, "i")
			m[i] ^= 0x01
			desc = fmt.Sprintf("vendor id byte %d ^1", i)
		case 5:
			x := rapid.SliceOfN(rapid.Byte(), 20, 20).Draw(t, "userData")
			copy(m[28:48], x)
			desc = fmt.Sprintf("user data = %x", x)
		}
	case "pem-reorder", "pem-drop-dup", "pem-foreign", "pem-text", "pem-b64":
		p := splitParts(o, l)
		blocks := [][]byte{cp(v.pck[0]), cp(v.pck[1]), cp(v.pck[2])}
		_, tail := splitPEM(p.cert)
		switch kind {
		case "pem-reorder":
			perm := rapid.Permutation([]int{0, 1, 2}).Draw(t, "perm")
			blocks = [][]byte{v.pck[perm[0]], v.pck[perm[1]], v.pck[perm[2]]}
			desc = fmt.Sprintf("PCK chain order %v", perm)
		case "pem-drop-dup":
			i := rapid.IntRange(0, 2).Draw(t, "i")
			if rapid.Bool().Draw(t, "dup") {
				at := rapid.IntRange(0, 3).Draw(t, "at")
				nb := append([][]byte{}, blocks[:at]...)
				nb = append(nb, v.pck[i])
				blocks = append(nb, blocks[at:]...)
				desc = fmt.Sprintf("duplicate PCK chain cert %d at position %d", i, at)
			} else {
				blocks = append(blocks[:i:i], blocks[i+1:]...)
				desc = fmt.Sprintf("drop PCK chain cert %d", i)
			}
		case "pem-foreign":
			i := rapid.IntRange(0, 2).Draw(t, "i")
			var others [][]byte
			names := []string{}
			for _, ov := range f.vecs {
				if ov != v {
					others = append(others, ov.pck[0])
					names = append(names, "PCK leaf of "+ov.name)
				}
			}
			tb, _ := splitPEM(v.col.certs)
			others = append(others, tb[0], f.selfPEM)
			names = append(names, "TCB signing cert", "self-signed forger cert")
			if dl, ok := parseLayout(f.otherQ[1]); ok {
				db, _ := splitPEM(f.otherQ[1][dl.cert.a:dl.cert.b])
				if len(db) == 3 {
					others = append(others, db[0])
					names = append(names, "PCK leaf of the out-of-date TDX quote")
				}
			}
			j := rapid.IntRange(0, len(others)-1).Draw(t, "j")
			blocks[i] = others[j]
			desc = fmt.Sprintf("replace PCK chain cert %d with %s", i, names[j])
		case "pem-text":
			i := rapid.IntRange(0, 2).Draw(t, "i")
			b := blocks[i]
			pos := rapid.IntRange(0, len(b)).Draw(t, "pos")
			ins := rapid.SampledFrom([]string{"\n", " ", "\t", "\r\n", "\n\n", "junk\n", "-----BEGIN CERTIFICATE-----\n", "\x00", "="}).Draw(t, "ins")
			blocks[i] = append(append(cp(b[:pos]), ins...), b[pos:]...)
			desc = fmt.Sprintf("insert %q at offset %d of PCK chain PEM block %d", ins, pos, i)
		case "pem-b64":
			i := rapid.IntRange(0, 2).Draw(t, "i")
			b := blocks[i]
			pos := rapid.IntRange(28, len(b)-28).Draw(t, "pos")
			c := rapid.SampledFrom([]byte("ABCDEFGHIJKLMNOPQRSTUVWXYZabcdefghijklmnopqrstuvwxyz0123456789+/=")).Draw(t, "c")
			b[pos] = c
			desc = fmt.Sprintf("PCK chain PEM block %d char %d = %q", i, pos, c)
		}
		p.cert = append(bytes.Join(blocks, nil), tail...)
		m = p.build()
	case "sig-malleate":
		which := rapid.SampledFrom([]string{"sig", "qeSig"}).Draw(t, "which")
		sp := l.sig
		if which == "qeSig" {
			sp = l.qeSig
		}
		switch rapid.SampledFrom([]int{0, 0, 0, 0, 1, 2}).Draw(t, "how") {
		case 0:
			copy(m[sp.a:sp.b], negS(o[sp.a:sp.b]))
			desc = which + ": s -> n-s"
		case 1:
			x, ok := addN(o[sp.a:sp.b], 0)
			if !ok {
				return o, kind, "r+n overflows"
			}
			copy(m[sp.a:sp.b], x)
			desc = which + ": r -> r+n"
		case 2:
			x, ok := addN(o[sp.a:sp.b], 1)
			if !ok {
				return o, kind, "s+n overflows"
			}
			copy(m[sp.a:sp.b], x)
			desc = which + ": s -> s+n"
		}
	case "att-key-special":
		switch rapid.IntRange(0, 3).Draw(t, "what") {
		case 0:
			for i := l.att.a; i < l.att.b; i++ {
				m[i] = 0
			}
			desc = "attestation key = (0,0)"
		case 1:
			copy(m[l.att.a:l.att.b], f.forgerPK)
			desc = "attestation key = forger key, nothing re-signed"
		case 2:
			// negate Y: another valid point
			p := elliptic.P256().Params().P
			y := new(big.Int).SetBytes(o[l.att.a+32 : l.att.b])
			y.Sub(p, y)
			y.FillBytes(m[l.att.a+32 : l.att.b])
			desc = "attestation key y -> p-y"
		case 3:
			ds := f.donors(v)
			d := ds[len(ds)-1]
			if dl, ok := parseLayout(d); ok {
				copy(m[l.att.a:l.att.b], d[dl.att.a:dl.att.b])
				copy(m[l.sig.a:l.sig.b], d[dl.sig.a:dl.sig.b])
			}
			desc = "attestation key and quote signature of the out-of-date TDX quote"
		}
	case "resign", "resign-bind", "resign-header", "resign-full-chain":
		// What an attacker without any Intel / platform key can do: choose the report, sign it
		// with an own attestation key and patch whatever is not covered by a signature.
		p := splitParts(o, l)
		var what string
		if kind == "resign-header" {
			i := rapid.IntRange(8, 47).Draw(t, "hdrByte")
			if i >= 12 && i < 28 {
				i = 28 + (i - 12) // keep the vendor id (parse-level check)
			}
			p.hdr[i] ^= byte(rapid.IntRange(1, 255).Draw(t, "x"))
			what = fmt.Sprintf("header byte %d changed", i)
		} else if rapid.IntRange(0, 7).Draw(t, "keepBody") == 0 {
			what = "report body unchanged"
		} else {
			var targets []field
			for _, fl := range fields {
				if strings.HasPrefix(fl.name, "body.") && fl.name != "body.tdAttributes" && fl.name != "body.attributes" {
					targets = append(targets, fl)
				}
			}
			// identity-bearing fields are the attacker's goal: weight them
			for _, fl := range fields {
				switch fl.name {
				case "body.mrEnclave", "body.mrSigner", "body.reportData", "body.mrTd", "body.rtmr0", "body.rtmr1", "body.rtmr2", "body.rtmr3":
					targets = append(targets, fl, fl, fl)
				}
			}
			fl := targets[rapid.IntRange(0, len(targets)-1).Draw(t, "target")]
			off := rapid.IntRange(0, fl.len()-1).Draw(t, "off")
			x := byte(rapid.IntRange(1, 255).Draw(t, "x"))
			p.body[fl.a-l.body.a+off] ^= x
			what = fmt.Sprintf("%s byte %d ^= %02x", fl.name, off, x)
		}
		p.att = cp(f.forgerPK)
		p.sig = f.forgeSig(p.hdr, p.body)
		desc = "forger attestation key, " + what + ", header||body re-signed by the forger"
		if kind == "resign-bind" || kind == "resign-full-chain" {
			h := sha256.New()
			h.Write(p.att)
			h.Write(p.auth)
			copy(p.qeRep[320:352], h.Sum(nil))
			desc += ", QE report data re-bound to the forger key"
		}
		if kind == "resign-full-chain" {
			p.qeSig = f.forgeSig(p.qeRep)
			pos := rapid.IntRange(0, 1).Draw(t, "selfPos")
			blocks := [][]byte{v.pck[0], v.pck[1], v.pck[2]}
			if pos == 0 {
				blocks[0] = f.selfPEM
			} else {
				blocks = [][]byte{f.selfPEM, v.pck[0], v.pck[2]}
			}
			_, tail := splitPEM(p.cert)
			p.cert = append(bytes.Join(blocks, nil), tail...)
			desc += fmt.Sprintf(", QE report re-signed by the forger, forger certificate in the chain (variant %d)", pos)
		}
		m = p.build()
	}
	return m, kind, desc
}

type caseTrace struct {
	Test   string `json:"test"`
	Vector string `json:"vector"`
	Kind   string `json:"kind"`
	Desc   string `json:"desc"`
	Ctx    string `json:"context,omitempty"`
	Quote  string `json:"quote_hex,omitempty"`
	TCB    string `json:"tcb_info_file,omitempty"`
	QE     string `json:"qe_identity_file,omitempty"`
	Certs  string `json:"certs_pem,omitempty"`
}

var lastCase *caseTrace

func init() {
	ev.Trace = func() any { return lastCase }
}

func laxPolicy() pcs.QuotePolicy {
	return pcs.QuotePolicy{TCBValidityPeriod: 65535, MinTCBEvaluationDataNumber: 0, TDX: &pcs.TdxQuotePolicy{}}
}

const quoteRule = "case = one mutant of a known-good quote (SGX v3 PCK-chain vector, TDX v4 vector) verified with the vector's own collateral, time and policy (1/8: maximally permissive policy); " +
	"mutation kinds: single-bit flip anywhere / in a drawn field, byte set, multi-byte set, 1-64 byte splice (random, own bytes, same/other offset of 3 other genuine quotes), whole fields taken from another genuine quote, field fill, " +
	"raw and consistent edits of sigLen/authLen/certLen/outer size, certification data type, bytes after the quote / truncation, header semantics (version, key type, TEE type, SVNs, vendor, user data), " +
	"PCK PEM chain reorder/drop/duplicate/foreign certificate/inserted text/base64 character, ECDSA malleation (s->n-s, +n) of both signatures, special attestation keys, and forgeries (own attestation key, changed report or header re-signed, " +
	"QE report data re-bound, QE report re-signed with an own certificate in the chain); oracle = Verify errors OR (MrEnclave, MrSigner, ReportData identical to the original's AND header, report body, attestation key, QE report, QE auth data " +
	"byte-identical to the signed original); non-trivial = mutant differs from the original and still passes Quote.UnmarshalBinary, i.e. reaches verification; distinct = hash of (vector, policy, mutant bytes)"

func TestC18QuoteMutants(t *testing.T) {
	rec := ev.New("C18", "TestC18QuoteMutants", quoteRule,
		"the repo's testdata vectors are genuine (they verify on the tree under test at the time and policy of quote_test.go; checked at start-up)",
		"accepted mutants are legal when only signature encodings, the PEM text, length fields or ignored trailing bytes differ")
	defer rec.Flush()
	f, err := loadFixtures()
	if err != nil {
		ev.Infra(t, "fixtures: %v", err)
	}
	rapid.Check(t, func(t *rapid.T) {
		v := f.vecs[rapid.IntRange(0, len(f.vecs)-1).Draw(t, "vector")]
		m, kind, desc := f.mutateQuote(t, v)
		pol, ctx := v.policy, "own-policy"
		if rapid.IntRange(0, 7).Draw(t, "lax") == 0 {
			pol, ctx = laxPolicy(), "lax-policy"
		}
		viaBundle := rapid.IntRange(0, 3).Draw(t, "entry") == 0
		lastCase = &caseTrace{Test: "TestC18QuoteMutants", Vector: v.name, Kind: kind, Desc: desc, Ctx: ctx, Quote: hex.EncodeToString(m)}
		if bytes.Equal(m, v.quote) {
			rec.Discard("mutation-is-identity:" + kind)
			return
		}
		vd := runVerify(m, &v.bundle, v.ts, &pol, viaBundle)
		full := fmt.Sprintf("[%s] %s (%s)", kind, desc, ctx)
		st := "parse"
		if vd.parsed {
			st = stageOf(vd.err)
		}
		if vd.err == nil {
			regions := checkAcceptedQuote(t, v, m, vd, full)
			rec.Label("accepted-identical")
			rec.Label("accepted-identical:" + strings.Join(regions, "+"))
			rec.Label("accepted-identical-kind:" + kind)
		} else {
			rec.Label("rejected-at:" + st)
		}
		rec.Label("kind:" + kind)
		if vd.parsed {
			rec.Label("parsed-kind:" + kind)
		}
		var sample any
		if vd.parsed && rec.WantSample() {
			sample = map[string]any{"vector": v.name, "mutation": full, "result": st}
		}
		rec.Case(vd.parsed, ev.Fingerprint(v.name, ctx, m), sample)
	})
}

// ---------------------------------------------------------------------------------------------
// Collateral mutators
// ---------------------------------------------------------------------------------------------

type jtoken struct {
	span
	kind string // "num", "str" (value), "key"
}

// scanJSONTokens lists the numbers, string values and keys of a JSON text (positions relative
// to b). A tiny scanner is enough: the fixtures contain no escapes, but they are handled.
func scanJSONTokens(b []byte) []jtoken {
	var out []jtoken
	for i := 0; i < len(b); {
		c := b[i]
		switch {
		case c == '"':
			j := i + 1
			for j < len(b) && b[j] != '"' {
				if b[j] == '\\' {
					j++
				}
				j++
			}
			k := j + 1
			for k < len(b) && (b[k] == ' ' || b[k] == '\n' || b[k] == '\t') {
				k++
			}
			kind := "str"
			if k < len(b) && b[k] == ':' {
				kind = "key"
			}
			out = append(out, jtoken{span{i + 1, j}, kind})
			i = j + 1
		case c >= '0' && c <= '9' || c == '-':
			j := i
			for j < len(b) && (b[j] >= '0' && b[j] <= '9' || b[j] == '-' || b[j] == '.' || b[j] == 'e' || b[j] == 'E' || b[j] == '+') {
				j++
			}
			out = append(out, jtoken{span{i, j}, "num"})
			i = j
		default:
			i++
		}
	}
	return out
}

var tcbStatuses = []string{"UpToDate", "SWHardeningNeeded", "ConfigurationNeeded", "ConfigurationAndSWHardeningNeeded", "OutOfDate", "OutOfDateConfigurationNeeded", "Revoked"}

func isHex(s string) bool {
	if s == "" {
		return false
	}
	for _, c := range s {
		if !(c >= '0' && c <= '9' || c >= 'a' && c <= 'f' || c >= 'A' && c <= 'F') {
			return false
		}
	}
	return true
}

func replaceSpan(b []byte, s span, with []byte) []byte {
	out := append([]byte{}, b[:s.a]...)
	out = append(out, with...)
	return append(out, b[s.b:]...)
}

// mutateSignedObject draws a field-aware edit of a JSON object text (the signed tcbInfo /
// enclaveIdentity body).
func mutateSignedObject(t *rapid.T, inner []byte) ([]byte, string) {
	toks := scanJSONTokens(inner)
	if len(toks) == 0 {
		return inner, "no tokens"
	}
	tk := toks[rapid.IntRange(0, len(toks)-1).Draw(t, "token")]
	old := string(inner[tk.a:tk.b])
	var nw string
	switch tk.kind {
	case "num":
		n, _ := strconv.ParseInt(old, 10, 64)
		nw = rapid.SampledFrom([]string{"0", strconv.FormatInt(n+1, 10), strconv.FormatInt(n-1, 10), "99", "4294967295", "1e1", old + "0"}).Draw(t, "num")
	case "key":
		i := rapid.IntRange(0, len(old)-1).Draw(t, "keyChar")
		bs := []byte(old)
		if rapid.Bool().Draw(t, "case") {
			bs[i] ^= 0x20 // Go matches keys case-insensitively; the signed bytes still change
		} else {
			bs[i]++
		}
		nw = string(bs)
	default:
		switch {
		case len(old) >= 20 && old[4] == '-' && strings.HasSuffix(old, "Z"):
			y, _ := strconv.Atoi(old[:4])
			nw = rapid.SampledFrom([]string{
				strconv.Itoa(y+1) + old[4:], strconv.Itoa(y-1) + old[4:], strconv.Itoa(y+10) + old[4:], "2018-06-01T00:00:00Z", old[:len(old)-2] + "9Z",
			}).Draw(t, "date")
		case func() bool {
			for _, s := range tcbStatuses {
				if s == old {
					return true
				}
			}
			return false
		}():
			nw = rapid.SampledFrom(tcbStatuses).Draw(t, "status")
		case isHex(old):
			bs := []byte(old)
			switch rapid.IntRange(0, 3).Draw(t, "hexHow") {
			case 0:
				i := rapid.IntRange(0, len(bs)-1).Draw(t, "i")
				bs[i] = "0123456789ABCDEF"[rapid.IntRange(0, 15).Draw(t, "digit")]
			case 1:
				for i := range bs {
					bs[i] = '0'
				}
			case 2:
				for i := range bs {
					bs[i] = 'F'
				}
			case 3:
				if strings.ToLower(old) != old {
					bs = []byte(strings.ToLower(old))
				} else {
					bs = []byte(strings.ToUpper(old))
				}
			}
			nw = string(bs)
		default:
			nw = rapid.SampledFrom([]string{"SGX", "TDX", "QE", "TD_QE", "", old + "x"}).Draw(t, "strAlt")
		}
	}
	return replaceSpan(inner, tk.span, []byte(nw)), fmt.Sprintf("%s %q -> %q at %d", tk.kind, old, nw, tk.a)
}

// signedFile is a PCS response file split around its signed object and signature.
type signedFile struct {
	key       string
	inner     []byte
	signature string
}

func splitSignedFile(file []byte, key string) (signedFile, bool) {
	var m map[string]json.RawMessage
	if err := json.Unmarshal(file, &m); err != nil {
		return signedFile{}, false
	}
	var sig string
	if err := json.Unmarshal(m["signature"], &sig); err != nil {
		return signedFile{}, false
	}
	return signedFile{key: key, inner: m[key], signature: sig}, true
}

func (s signedFile) build() []byte {
	return []byte(`{"` + s.key + `":` + string(s.inner) + `,"signature":"` + s.signature + `"}`)
}

var collateralKinds = []string{
	"file-bit", "file-bit", "file-byte", "file-ws", "inner-field", "inner-field", "inner-field", "sig-hex", "dup-key", "extra-key", "swap-signatures",
	"resign-selfsigned", "resign-selfsigned", "certs-structure", "certs-foreign", "certs-text", "certs-bit", "cross", "cross", "cross-quote",
}

type colCase struct {
	tcbFile, qeFile, certs []byte
	quote                  []byte
	base                   *vector // vector whose accepted original the case derives from (nil: foreign quote that has no accepted original)
	quoteFMSPC             string
	quoteTDX               bool
	ts                     time.Time
	pol                    pcs.QuotePolicy
	kind, desc, ctx        string
}

func (f *fixtures) mutateCollateral(t *rapid.T) colCase {
	v := f.vecs[rapid.IntRange(0, len(f.vecs)-1).Draw(t, "vector")]
	c := colCase{tcbFile: v.col.tcbFile, qeFile: v.col.qeFile, certs: v.col.certs, quote: v.quote, base: v, quoteFMSPC: v.fmspc, quoteTDX: v.tdx, ts: v.ts, pol: v.policy, ctx: "own-policy"}
	if rapid.IntRange(0, 3).Draw(t, "lax") == 0 {
		c.pol, c.ctx = laxPolicy(), "lax-policy"
	}
	c.kind = rapid.SampledFrom(collateralKinds).Draw(t, "kind")
	pickFile := func() (string, *[]byte, string) {
		switch rapid.IntRange(0, 2).Draw(t, "file") {
		case 0:
			return "tcb-info", &c.tcbFile, "tcbInfo"
		case 1:
			return "qe-identity", &c.qeFile, "enclaveIdentity"
		}
		return "certs", &c.certs, ""
	}
	pickJSON := func() (string, *[]byte, string) {
		if rapid.Bool().Draw(t, "qe") {
			return "qe-identity", &c.qeFile, "enclaveIdentity"
		}
		return "tcb-info", &c.tcbFile, "tcbInfo"
	}
	switch c.kind {
	case "file-bit":
		name, fp, _ := pickFile()
		b := cp(*fp)
		bit := rapid.IntRange(0, len(b)*8-1).Draw(t, "bit")
		b[bit/8] ^= 1 << (bit % 8)
		*fp = b
		c.desc = fmt.Sprintf("%s file: flip bit %d (byte %d %q -> %q)", name, bit, bit/8, (*fp)[bit/8]^(1<<(bit%8)), b[bit/8])
	case "file-byte":
		name, fp, _ := pickFile()
		b := cp(*fp)
		pos := rapid.IntRange(0, len(b)-1).Draw(t, "pos")
		ch := rapid.SampledFrom([]byte("\"{}[],: \n\t0123456789abcdefABCDEFxZ-\\")).Draw(t, "ch")
		old := b[pos]
		b[pos] = ch
		*fp = b
		c.desc = fmt.Sprintf("%s file: byte %d %q -> %q", name, pos, old, ch)
	case "file-ws":
		name, fp, _ := pickFile()
		pos := rapid.IntRange(0, len(*fp)).Draw(t, "pos")
		ws := rapid.SampledFrom([]string{" ", "\n", "\t", "\r\n", "  "}).Draw(t, "ws")
		*fp = replaceSpan(*fp, span{pos, pos}, []byte(ws))
		c.desc = fmt.Sprintf("%s file: insert %q at %d", name, ws, pos)
	case "inner-field":
		name, fp, key := pickJSON()
		sf, ok := splitSignedFile(*fp, key)
		if !ok {
			c.desc = "unsplittable"
			return c
		}
		var d string
		sf.inner, d = mutateSignedObject(t, sf.inner)
		*fp = sf.build()
		c.desc = fmt.Sprintf("%s signed object: %s (signature kept)", name, d)
	case "sig-hex":
		name, fp, key := pickJSON()
		sf, _ := splitSignedFile(*fp, key)
		raw, _ := hex.DecodeString(sf.signature)
		switch rapid.IntRange(0, 5).Draw(t, "how") {
		case 0:
			i := rapid.IntRange(0, len(sf.signature)-1).Draw(t, "i")
			bs := []byte(sf.signature)
			bs[i] = "0123456789abcdef"[rapid.IntRange(0, 15).Draw(t, "digit")]
			sf.signature = string(bs)
			c.desc = fmt.Sprintf("%s signature hex digit %d = %c", name, i, bs[i])
		case 1:
			sf.signature = strings.ToUpper(sf.signature)
			c.desc = name + " signature in upper-case hex"
		case 2:
			sf.signature = hex.EncodeToString(negS(raw))
			c.desc = name + " signature s -> n-s"
		case 3:
			n := rapid.IntRange(1, 4).Draw(t, "n")
			sf.signature = sf.signature[:len(sf.signature)-2*n]
			c.desc = fmt.Sprintf("%s signature truncated by %d bytes", name, n)
		case 4:
			sf.signature += "00"
			c.desc = name + " signature with an extra byte"
		case 5:
			sf.signature = hex.EncodeToString(f.forgeSig(sf.inner))
			c.desc = name + " signature replaced by the forger's signature over the same body (Intel chain kept)"
		}
		*fp = sf.build()
	case "dup-key":
		name, fp, key := pickJSON()
		sf, _ := splitSignedFile(*fp, key)
		evil, d := mutateSignedObject(t, sf.inner)
		first := rapid.Bool().Draw(t, "evilFirst")
		k2 := key
		if rapid.Bool().Draw(t, "upperKey") {
			k2 = strings.ToUpper(key)
		}
		if first {
			*fp = []byte(`{"` + k2 + `":` + string(evil) + `,"` + key + `":` + string(sf.inner) + `,"signature":"` + sf.signature + `"}`)
		} else {
			*fp = []byte(`{"` + key + `":` + string(sf.inner) + `,"signature":"` + sf.signature + `","` + k2 + `":` + string(evil) + `}`)
		}
		c.desc = fmt.Sprintf("%s: duplicate key %q with edited body (%s), edited copy first=%v", name, k2, d, first)
	case "extra-key":
		name, fp, key := pickJSON()
		sf, _ := splitSignedFile(*fp, key)
		evil, d := mutateSignedObject(t, sf.inner)
		*fp = []byte(`{"override":` + string(evil) + `,"` + key + `":` + string(sf.inner) + `,"tcbStatus":"UpToDate","signature":"` + sf.signature + `","x":[1,{"` + key + `":0}]}`)
		c.desc = fmt.Sprintf("%s: unknown extra keys around the genuine ones (%s)", name, d)
	case "swap-signatures":
		a, _ := splitSignedFile(c.tcbFile, "tcbInfo")
		b, _ := splitSignedFile(c.qeFile, "enclaveIdentity")
		switch rapid.IntRange(0, 2).Draw(t, "how") {
		case 0:
			a.signature, b.signature = b.signature, a.signature
			c.desc = "TCB info and QE identity signatures swapped"
		case 1:
			a.inner, a.signature = b.inner, b.signature
			c.desc = "QE identity body and signature served as the TCB info"
		case 2:
			b.inner, b.signature = a.inner, a.signature
			c.desc = "TCB info body and signature served as the QE identity"
		}
		c.tcbFile, c.qeFile = a.build(), b.build()
	case "resign-selfsigned":
		// Collateral forged by somebody without Intel's key: edited (or unchanged) body, own
		// signature, own "TCB signing" certificate.
		tb, _ := splitPEM(v.col.certs)
		which := rapid.IntRange(0, 2).Draw(t, "which") // 0 tcb, 1 qe, 2 both
		var ds []string
		for i, fp := range []*[]byte{&c.tcbFile, &c.qeFile} {
			if which != 2 && which != i {
				continue
			}
			key := []string{"tcbInfo", "enclaveIdentity"}[i]
			sf, _ := splitSignedFile(*fp, key)
			if rapid.IntRange(0, 3).Draw(t, "edit") != 0 {
				var d string
				sf.inner, d = mutateSignedObject(t, sf.inner)
				ds = append(ds, key+": "+d)
			} else {
				ds = append(ds, key+": body unchanged")
			}
			sf.signature = hex.EncodeToString(f.forgeSig(sf.inner))
			*fp = sf.build()
		}
		chain := rapid.SampledFrom([]string{"self+root", "self", "self+self", "self+signing", "signing+root", "self+signing+root", "root+self"}).Draw(t, "chain")
		pm := map[string][]byte{"self": f.selfPEM, "root": tb[1], "signing": tb[0]}
		c.certs = nil
		for _, n := range strings.Split(chain, "+") {
			c.certs = append(c.certs, pm[n]...)
		}
		c.desc = fmt.Sprintf("forger-signed collateral (%s), certificate chain %s", strings.Join(ds, "; "), chain)
	case "certs-structure":
		tb, tail := splitPEM(v.col.certs)
		how := rapid.SampledFrom([]string{"root+signing", "signing", "root", "signing+signing", "root+root", "signing+root+root", "signing+signing+root", "signing+root+signing", "empty", "bad-fixture", "signing+root+tail"}).Draw(t, "how")
		switch how {
		case "empty":
			c.certs = nil
		case "bad-fixture":
			c.certs = f.badCerts
		default:
			pm := map[string][]byte{"root": tb[1], "signing": tb[0], "tail": append([]byte("\ntrailing text\n"), tail...)}
			c.certs = nil
			for _, n := range strings.Split(how, "+") {
				c.certs = append(c.certs, pm[n]...)
			}
		}
		c.desc = "TCB certificate chain = " + how
	case "certs-foreign":
		tb, _ := splitPEM(v.col.certs)
		i := rapid.IntRange(0, 1).Draw(t, "i")
		cands := [][]byte{v.pck[0], v.pck[1], f.selfPEM}
		names := []string{"PCK leaf", "PCK platform CA", "self-signed forger cert"}
		j := rapid.IntRange(0, 2).Draw(t, "j")
		tb[i] = cands[j]
		c.certs = bytes.Join(tb, nil)
		c.desc = fmt.Sprintf("TCB certificate chain: cert %d replaced by %s", i, names[j])
	case "certs-text":
		b := v.col.certs
		pos := rapid.IntRange(0, len(b)).Draw(t, "pos")
		ins := rapid.SampledFrom([]string{"\n", " ", "\t", "\r\n", "junk\n", "-----BEGIN CERTIFICATE-----\n", "\x00", "=", "Comment: x\n"}).Draw(t, "ins")
		c.certs = replaceSpan(b, span{pos, pos}, []byte(ins))
		c.desc = fmt.Sprintf("TCB certificate chain: insert %q at %d", ins, pos)
	case "certs-bit":
		b := cp(v.col.certs)
		bit := rapid.IntRange(0, len(b)*8-1).Draw(t, "bit")
		b[bit/8] ^= 1 << (bit % 8)
		c.certs = b
		c.desc = fmt.Sprintf("TCB certificate chain: flip bit %d", bit)
	case "cross", "cross-quote":
		// Genuine collateral of another platform / TEE / date, under a policy and at times that
		// do not reject for other reasons.
		if c.kind == "cross-quote" {
			// the out-of-date TDX quote (FMSPC 50806F000000) has no accepted original: its only
			// oracle is "collateral of another platform is never accepted".
			c.quote, c.base, c.quoteFMSPC, c.quoteTDX = f.otherQ[1], nil, "50806F000000", true
		}
		tc := f.cols[rapid.IntRange(0, len(f.cols)-1).Draw(t, "tcbOf")]
		qc := f.cols[rapid.IntRange(0, len(f.cols)-1).Draw(t, "qeOf")]
		c.tcbFile, c.qeFile = tc.tcbFile, qc.qeFile
		c.pol, c.ctx = laxPolicy(), "lax-policy"
		times := []time.Time{v.ts, f.vecs[0].ts, f.vecs[1].ts, time.Unix(1687091776, 0).UTC(), tc.tcbIssue, qc.qeIssue, tc.tcbIssue.Add(time.Hour), time.Unix(1740000000, 0).UTC()}
		c.ts = times[rapid.IntRange(0, len(times)-1).Draw(t, "ts")]
		c.desc = fmt.Sprintf("TCB info of %s, QE identity of %s, ts=%d", tc.name, qc.name, c.ts.Unix())
	}
	return c
}

// checkAcceptedCollateral is the oracle for a case accepted with (possibly) modified collateral.
func (f *fixtures) checkAcceptedCollateral(t ev.Failer, c *colCase, b *pcs.TCBBundle, vd verdict, full string) {
	dump := fmt.Sprintf("files in the trace file (sha256/8: tcb info %s, qe identity %s, certs %s)", hashHex(c.tcbFile), hashHex(c.qeFile), hashHex(c.certs))
	if c.base != nil && bytes.Equal(c.quote, c.base.quote) {
		vq := vd.vq
		w := c.base.want
		if vq == nil || vq.Identity.MrEnclave != w.Identity.MrEnclave || vq.Identity.MrSigner != w.Identity.MrSigner || !bytes.Equal(vq.ReportData, w.ReportData) {
			ev.Violation(t, "identity-changed", "%s: accepted with a different verified identity/report data: %+v; %s", full, vq, dump)
		}
	}
	// Only bytes signed by Intel can verify: the accepted signed objects must be among the
	// genuine ones of the fixtures.
	if !f.genuine[hashHex(b.TCBInfo.TCBInfo)] {
		ev.Violation(t, "unsigned-collateral-accepted", "%s: accepted with a TCB info body that no Intel signature covers; %s", full, dump)
	}
	if !f.genuine[hashHex(b.QEIdentity.EnclaveIdentity)] {
		ev.Violation(t, "unsigned-collateral-accepted", "%s: accepted with a QE identity body that no Intel signature covers; %s", full, dump)
	}
	var tb, qb signedBody
	if json.Unmarshal(b.TCBInfo.TCBInfo, &tb) != nil || json.Unmarshal(b.QEIdentity.EnclaveIdentity, &qb) != nil {
		ev.Violation(t, "unsigned-collateral-accepted", "%s: accepted with an undecodable signed body; %s", full, dump)
	}
	if !strings.EqualFold(tb.FMSPC, c.quoteFMSPC) {
		ev.Violation(t, "foreign-platform-collateral-accepted", "%s: quote of platform FMSPC %s accepted with the TCB info of FMSPC %s; %s", full, c.quoteFMSPC, tb.FMSPC, dump)
	}
	wantTCB, wantQE := "SGX", "QE"
	if c.quoteTDX {
		wantTCB, wantQE = "TDX", "TD_QE"
	}
	if tb.ID != wantTCB || qb.ID != wantQE {
		ev.Violation(t, "foreign-tee-collateral-accepted", "%s: accepted with TCB info id %q / QE identity id %q for a quote that needs %q / %q; %s", full, tb.ID, qb.ID, wantTCB, wantQE, dump)
	}
}

const collateralRule = "case = a known-good quote verified with one mutant of its collateral: the PCS response files (TCB info JSON, QE identity JSON, issuer chain PEM) are mutated at file level and decoded the way a node does; " +
	"kinds: bit flip / structural byte / inserted whitespace anywhere in a file, field-aware edit of a number, date, status, hex string or key inside the signed object with the signature kept, signature hex edits (digit, case, s->n-s, length, forger's signature), " +
	"duplicate and unknown keys, swapped signatures/bodies, forger-signed collateral with a self-signed certificate in 7 chain shapes, chain reorder/drop/duplicate/extra/bad fixture, foreign certificate (PCK leaf, platform CA, self-signed), inserted PEM text, " +
	"bit flip in the PEM, cross-combination of the 3 genuine collateral sets (SGX 00606A, TDX C0806F, TDX 50806F) with the SGX, TDX and out-of-date TDX quotes at 8 times under a maximally permissive policy; " +
	"oracle = Verify errors OR (identity and report data identical to the original's AND both accepted signed objects are byte-identical to Intel-signed fixture objects AND the TCB info's FMSPC equals the FMSPC of the quote's PCK certificate AND ids match the TEE type); " +
	"non-trivial = the mutated files still decode as JSON into a TCBBundle, so that verification runs on the mutant; distinct = hash of (quote, files, time, policy)"

func TestC18CollateralMutants(t *testing.T) {
	rec := ev.New("C18", "TestC18CollateralMutants", collateralRule,
		"a genuine QE identity or TCB info of another issue date for the same platform/QE is legitimately accepted when the policy's validity period allows it")
	defer rec.Flush()
	f, err := loadFixtures()
	if err != nil {
		ev.Infra(t, "fixtures: %v", err)
	}
	rapid.Check(t, func(t *rapid.T) {
		c := f.mutateCollateral(t)
		viaBundle := rapid.IntRange(0, 3).Draw(t, "entry") == 0
		lastCase = &caseTrace{Test: "TestC18CollateralMutants", Kind: c.kind, Desc: c.desc, Ctx: c.ctx + " ts=" + strconv.FormatInt(c.ts.Unix(), 10),
			Quote: hex.EncodeToString(c.quote), TCB: string(c.tcbFile), QE: string(c.qeFile), Certs: string(c.certs)}
		if c.base != nil {
			lastCase.Vector = c.base.name
			if bytes.Equal(c.quote, c.base.quote) && bytes.Equal(c.tcbFile, c.base.col.tcbFile) && bytes.Equal(c.qeFile, c.base.col.qeFile) && bytes.Equal(c.certs, c.base.col.certs) {
				rec.Discard("mutation-is-identity:" + c.kind)
				return
			}
		}
		full := fmt.Sprintf("[%s] %s (%s)", c.kind, c.desc, c.ctx)
		rec.Label("kind:" + c.kind)
		fp := ev.Fingerprint(c.quote, c.tcbFile, c.qeFile, c.certs, c.ts.UnixNano(), c.ctx)
		b, ok := bundleOf(c.tcbFile, c.qeFile, c.certs)
		if !ok {
			rec.Label("rejected-at:json-decoding")
			rec.Case(false, fp, nil)
			return
		}
		vd := runVerify(c.quote, &b, c.ts, &c.pol, viaBundle)
		st := stageOf(vd.err)
		if vd.err == nil {
			f.checkAcceptedCollateral(t, &c, &b, vd, full)
			rec.Label("accepted-identical")
			rec.Label("accepted-identical-kind:" + c.kind)
		} else {
			rec.Label("rejected-at:" + st)
			if c.kind == "cross" || c.kind == "cross-quote" {
				rec.Label("cross-rejected-at:" + st)
			}
		}
		var sample any
		if rec.WantSample() {
			sample = map[string]any{"mutation": full, "result": st}
		}
		rec.Case(true, fp, sample)
	})
}

// ---------------------------------------------------------------------------------------------
// Time / policy sweep with an independent validity model
// ---------------------------------------------------------------------------------------------

type boundary struct {
	name string
	at   time.Time
}

const day = 24 * time.Hour

// boundaries lists every instant at which the validity of the vector's quote + collateral can
// change, computed from the test's own parse of the certificates and JSON dates.
func (v *vector) boundaries(validityDays uint16) []boundary {
	var out []boundary
	for i, c := range v.pckX {
		out = append(out, boundary{fmt.Sprintf("pck[%d].NotBefore", i), c.NotBefore}, boundary{fmt.Sprintf("pck[%d].NotAfter", i), c.NotAfter})
	}
	for i, c := range v.tcbX {
		out = append(out, boundary{fmt.Sprintf("tcbcert[%d].NotBefore", i), c.NotBefore}, boundary{fmt.Sprintf("tcbcert[%d].NotAfter", i), c.NotAfter})
	}
	c := v.col
	vp := time.Duration(validityDays) * day
	out = append(out,
		boundary{"tcbInfo.issueDate", c.tcbIssue}, boundary{"tcbInfo.nextUpdate", c.tcbNext},
		boundary{"qeIdentity.issueDate", c.qeIssue}, boundary{"qeIdentity.nextUpdate", c.qeNext},
		boundary{"tcbInfo.issueDate+validity", c.tcbIssue.Add(vp)}, boundary{"qeIdentity.issueDate+validity", c.qeIssue.Add(vp)},
		boundary{"vector-time", v.ts})
	return out
}

func contains(l []string, s string) bool {
	for _, x := range l {
		if x == s {
			return true
		}
	}
	return false
}

// mustReject is the independent model: the reasons (named by the property) for which the
// vector's quote + own collateral must not be accepted at ts under pol. Empty = acceptable.
// Written from the documentation of QuotePolicy and the X.509 / PCS validity rules, from the
// dates and numbers the test parsed itself.
func (v *vector) mustReject(ts time.Time, pol *pcs.QuotePolicy) []string {
	eff := pcs.QuotePolicy{TCBValidityPeriod: 30, MinTCBEvaluationDataNumber: pcs.DefaultMinTCBEvaluationDataNumber}
	if pol != nil {
		eff = *pol
	}
	var why []string
	if eff.Disabled {
		why = append(why, "disabled")
	}
	if v.tdx {
		if eff.TDX == nil {
			why = append(why, "tdx-without-policy")
		} else {
			ok := len(eff.TDX.AllowedTdxModules) == 0 && v.mrSignerSeam == [48]byte{}
			for _, m := range eff.TDX.AllowedTdxModules {
				if m.MrSignerSeam == v.mrSignerSeam && (m.MrSeam == nil || *m.MrSeam == v.mrSeam) {
					ok = true
				}
			}
			if !ok {
				why = append(why, "tdx-module-not-allowed")
			}
		}
	}
	for _, c := range append(append([]*x509.Certificate{}, v.pckX...), v.tcbX...) {
		if ts.Before(c.NotBefore) {
			why = append(why, "certificate-not-yet-valid")
			break
		}
	}
	for _, c := range append(append([]*x509.Certificate{}, v.pckX...), v.tcbX...) {
		if ts.After(c.NotAfter) {
			why = append(why, "certificate-expired")
			break
		}
	}
	c := v.col
	if ts.Before(c.tcbIssue) || ts.Before(c.qeIssue) {
		why = append(why, "collateral-not-yet-valid")
	}
	vp := time.Duration(eff.TCBValidityPeriod) * day
	if ts.After(c.tcbIssue.Add(vp)) || ts.After(c.qeIssue.Add(vp)) {
		why = append(why, "collateral-expired")
	}
	if c.tcbEval < eff.MinTCBEvaluationDataNumber || c.qeEval < eff.MinTCBEvaluationDataNumber {
		why = append(why, "evaluation-number-below-minimum")
	}
	if contains(eff.FMSPCBlacklist, c.tcbFMSPC) {
		why = append(why, "fmspc-blacklisted")
	}
	if len(eff.FMSPCWhitelist) > 0 && !contains(eff.FMSPCWhitelist, c.tcbFMSPC) {
		why = append(why, "fmspc-not-whitelisted")
	}
	return why
}

func swapCase(s string) string {
	if strings.ToLower(s) != s {
		return strings.ToLower(s)
	}
	return strings.ToUpper(s)
}

type polDraw struct {
	pol      *pcs.QuotePolicy
	desc     string
	boundary bool // a setting at its boundary value
	caseList bool // black/whitelist mentions the FMSPC in the other letter case only
}

func drawPolicy(t *rapid.T, v *vector) polDraw {
	switch rapid.IntRange(0, 9).Draw(t, "polKind") {
	case 0:
		p := v.policy
		return polDraw{pol: &p, desc: "vector policy"}
	case 1:
		return polDraw{pol: nil, desc: "nil policy (defaults: 30 days, min eval 12, no TDX)", boundary: v.tdx}
	}
	var d polDraw
	p := pcs.QuotePolicy{}
	p.Disabled = rapid.IntRange(0, 15).Draw(t, "disabled") == 0
	p.TCBValidityPeriod = rapid.SampledFrom([]uint16{0, 1, 29, 30, 30, 30, 31, 90, 365, 3650, 65535}).Draw(t, "validity")
	n := v.col.tcbEval
	p.MinTCBEvaluationDataNumber = rapid.SampledFrom([]uint32{0, 12, n - 1, n - 1, n, n, n, n + 1, 100, math.MaxUint32}).Draw(t, "minEval")
	if m := p.MinTCBEvaluationDataNumber; m >= n-1 && m <= n+1 {
		d.boundary = true
	}
	own := v.col.tcbFMSPC
	lists := [][]string{nil, nil, nil, {}, {own}, {"00906ED50000"}, {swapCase(own)}, {"00906ED50000", own}, {own[:len(own)-1] + "1"}}
	bi := 0
	if rapid.IntRange(0, 2).Draw(t, "useBlacklist") == 0 {
		bi = rapid.IntRange(0, len(lists)-1).Draw(t, "blacklist")
		p.FMSPCBlacklist = lists[bi]
	}
	wi := 0
	if rapid.IntRange(0, 3).Draw(t, "useWhitelist") == 0 {
		wi = rapid.IntRange(0, len(lists)-1).Draw(t, "whitelist")
		p.FMSPCWhitelist = lists[wi]
	}
	if bi >= 4 || wi >= 4 {
		d.boundary = true
	}
	d.caseList = bi == 6 || wi == 6
	tdxDesc := "nil"
	tdxPick := rapid.IntRange(0, 10).Draw(t, "tdx")
	if !v.tdx && tdxPick > 3 {
		tdxPick = 2 // module lists are irrelevant for an SGX quote
	}
	switch tdxPick {
	case 0:
	case 1, 2, 3, 8, 9:
		p.TDX = &pcs.TdxQuotePolicy{}
		tdxDesc = "any Intel module"
	case 4:
		p.TDX = &pcs.TdxQuotePolicy{AllowedTdxModules: []pcs.TdxModulePolicy{{MrSignerSeam: v.mrSignerSeam}}}
		tdxDesc = "module signer of the quote"
	case 5:
		ms := v.mrSeam
		p.TDX = &pcs.TdxQuotePolicy{AllowedTdxModules: []pcs.TdxModulePolicy{{MrSeam: &ms, MrSignerSeam: v.mrSignerSeam}}}
		tdxDesc = "exact module of the quote"
	case 6:
		ms := v.mrSeam
		ms[rapid.IntRange(0, 47).Draw(t, "seamByte")] ^= 1
		p.TDX = &pcs.TdxQuotePolicy{AllowedTdxModules: []pcs.TdxModulePolicy{{MrSeam: &ms, MrSignerSeam: v.mrSignerSeam}}}
		tdxDesc = "module with one MRSEAM bit different"
	case 10:
		// the measurement is the quote's, the signer is not: both are pinned, both must match
		ms, sg := v.mrSeam, v.mrSignerSeam
		sg[rapid.IntRange(0, 47).Draw(t, "signerByte2")] ^= 1
		p.TDX = &pcs.TdxQuotePolicy{AllowedTdxModules: []pcs.TdxModulePolicy{{MrSeam: &ms, MrSignerSeam: sg}}}
		tdxDesc = "exact MRSEAM of the quote with another signer"
	case 7:
		sg := v.mrSignerSeam
		sg[rapid.IntRange(0, 47).Draw(t, "signerByte")] ^= 1
		mods := []pcs.TdxModulePolicy{{MrSignerSeam: sg}}
		tdxDesc = "module with another signer"
		if rapid.Bool().Draw(t, "plusRight") {
			mods = append(mods, pcs.TdxModulePolicy{MrSignerSeam: v.mrSignerSeam})
			tdxDesc += " + the quote's signer"
		}
		p.TDX = &pcs.TdxQuotePolicy{AllowedTdxModules: mods}
	}
	if v.tdx && (p.TDX == nil || len(p.TDX.AllowedTdxModules) > 0) {
		d.boundary = true
	}
	d.pol = &p
	d.desc = fmt.Sprintf("disabled=%v validity=%dd minEval=%d (bundle %d) blacklist=%v whitelist=%v tdx=%s", p.Disabled, p.TCBValidityPeriod, p.MinTCBEvaluationDataNumber, n, p.FMSPCBlacklist, p.FMSPCWhitelist, tdxDesc)
	return d
}

const timePolicyRule = "case = a known-good quote with its own unmodified collateral verified at a drawn time under a drawn policy; times: every validity boundary computed by the test from its own parse (NotBefore/NotAfter of the 3 PCK-chain and 2 TCB-chain certificates, " +
	"issueDate, nextUpdate and issueDate+TCBValidityPeriod of TCB info and QE identity, the vector time) with offsets -1s,-1ns,0,+1ns,+1s, times within 40 days of a boundary, and uniform times 2018-2051; policies: the vector's, nil, " +
	"or Disabled x TCBValidityPeriod {0,1,29,30,31,90,365,3650,65535} x MinTCBEvaluationDataNumber {0,12,n-1,n,n+1,100,2^32-1} x FMSPC black/whitelists (absent, empty, exact, other, other letter case, near miss) x TDX policy (nil, any, right signer, exact module, " +
	"one-bit-different MRSEAM, wrong signer [+ right]); oracle = independent model: disabled, TDX quote without/outside TDX policy, any certificate or collateral not yet valid or expired, evaluation number below the minimum, blacklisted / not whitelisted FMSPC => must be rejected; " +
	"otherwise must be accepted with the original identity and report data; non-trivial = time within 1 s of a boundary, or a policy setting at its boundary value (minimum n-1..n+1, a list naming the FMSPC, TDX nil or a module list on the TDX quote); distinct = (vector, time, policy)"

func TestC18TimePolicy(t *testing.T) {
	rec := ev.New("C18", "TestC18TimePolicy", timePolicyRule,
		"collateral expiry is issueDate + policy TCBValidityPeriod (documented on QuotePolicy); nextUpdate is not a validity bound in oasis-core, acceptances after nextUpdate are counted, not failed",
		"FMSPC black/whitelists are compared as written (exact strings); entries in the other letter case are counted separately, not failed")
	defer rec.Flush()
	f, err := loadFixtures()
	if err != nil {
		ev.Infra(t, "fixtures: %v", err)
	}
	lo, hi := time.Date(2018, 1, 1, 0, 0, 0, 0, time.UTC).Unix(), time.Date(2051, 1, 1, 0, 0, 0, 0, time.UTC).Unix()
	offsets := []time.Duration{-time.Second, -time.Nanosecond, 0, time.Nanosecond, time.Second}
	rapid.Check(t, func(t *rapid.T) {
		v := f.vecs[rapid.IntRange(0, len(f.vecs)-1).Draw(t, "vector")]
		pd := drawPolicy(t, v)
		validity := uint16(30)
		if pd.pol != nil {
			validity = pd.pol.TCBValidityPeriod
		}
		bs := v.boundaries(validity)
		var ts time.Time
		var tdesc string
		near := false
		// the edges of the acceptance window: latest lower bound, earliest upper bound
		var lower, upper boundary
		for _, b := range bs {
			switch {
			case strings.HasSuffix(b.name, "NotBefore") || strings.HasSuffix(b.name, ".issueDate"):
				if lower.name == "" || b.at.After(lower.at) {
					lower = b
				}
			case strings.HasSuffix(b.name, "NotAfter") || strings.HasSuffix(b.name, "+validity"):
				if upper.name == "" || b.at.Before(upper.at) {
					upper = b
				}
			}
		}
		switch mode := rapid.IntRange(0, 13).Draw(t, "timeMode"); {
		case mode >= 10 && mode <= 12:
			b := lower
			if rapid.Bool().Draw(t, "upperEdge") {
				b = upper
			}
			off := offsets[rapid.IntRange(0, len(offsets)-1).Draw(t, "offset")]
			ts, tdesc, near = b.at.Add(off), fmt.Sprintf("window-edge %s%+dns", b.name, off.Nanoseconds()), true
		case mode == 13:
			if upper.at.After(lower.at) {
				ts = lower.at.Add(time.Duration(rapid.Int64Range(0, int64(upper.at.Sub(lower.at)/time.Second)).Draw(t, "inWindow")) * time.Second)
				tdesc = "inside the window"
			} else {
				ts, tdesc = v.ts, "vector-time (empty window)"
			}
		case mode <= 6:
			b := bs[rapid.IntRange(0, len(bs)-1).Draw(t, "boundary")]
			off := offsets[rapid.IntRange(0, len(offsets)-1).Draw(t, "offset")]
			ts, tdesc, near = b.at.Add(off), fmt.Sprintf("%s%+dns", b.name, off.Nanoseconds()), true
		case mode == 7:
			b := bs[rapid.IntRange(0, len(bs)-1).Draw(t, "boundary")]
			off := time.Duration(rapid.Int64Range(-40*86400, 40*86400).Draw(t, "offSec")) * time.Second
			ts, tdesc = b.at.Add(off), fmt.Sprintf("%s%+ds", b.name, int64(off/time.Second))
		case mode == 8:
			ts = time.Unix(rapid.Int64Range(lo, hi).Draw(t, "unix"), 0).UTC()
			tdesc = "uniform"
		default:
			ts, tdesc = v.ts, "vector-time"
		}
		viaBundle := rapid.IntRange(0, 3).Draw(t, "entry") == 0
		full := fmt.Sprintf("%s at %d.%09d (%s) under {%s}", v.name, ts.Unix(), ts.Nanosecond(), tdesc, pd.desc)
		lastCase = &caseTrace{Test: "TestC18TimePolicy", Vector: v.name, Kind: "time-policy", Desc: full}
		why := v.mustReject(ts, pd.pol)
		vd := runVerify(v.quote, &v.bundle, ts, pd.pol, viaBundle)
		if !vd.parsed {
			ev.Infra(t, "known-good quote does not parse")
		}
		st := stageOf(vd.err)
		if vd.err == nil {
			if len(why) > 0 {
				ev.Violation(t, "accepted-"+why[0], "%s: accepted although the independent model requires rejection: %v", full, why)
			}
			vq := vd.vq
			if vq == nil || vq.Identity.MrEnclave != v.want.Identity.MrEnclave || vq.Identity.MrSigner != v.want.Identity.MrSigner || !bytes.Equal(vq.ReportData, v.want.ReportData) {
				ev.Violation(t, "identity-changed", "%s: accepted with a different identity/report data: %+v", full, vq)
			}
			rec.Label("accepted")
			if ts.After(v.col.tcbNext) || ts.After(v.col.qeNext) {
				rec.Label("accepted-after-nextUpdate")
			}
			if pd.caseList && pd.pol != nil && len(pd.pol.FMSPCBlacklist) > 0 && strings.EqualFold(pd.pol.FMSPCBlacklist[0], v.col.tcbFMSPC) {
				rec.Label("accepted-although-blacklist-names-fmspc-in-other-letter-case")
			}
		} else {
			if len(why) == 0 {
				ev.Violation(t, "valid-rejected", "%s: rejected (%v) although nothing in the independent model forbids acceptance", full, vd.err)
			}
			rec.Label("rejected-at:" + st)
			for _, w := range why {
				rec.Label("model-reject:" + w)
			}
			if len(why) == 1 {
				rec.Label("sole-reason:" + why[0])
			}
			if pd.caseList && pd.pol != nil && len(pd.pol.FMSPCWhitelist) > 0 && len(why) == 1 && why[0] == "fmspc-not-whitelisted" && strings.EqualFold(pd.pol.FMSPCWhitelist[0], v.col.tcbFMSPC) {
				rec.Label("rejected-although-whitelist-names-fmspc-in-other-letter-case")
			}
		}
		nontrivial := near || pd.boundary
		if near {
			rec.Label("time-within-1s-of-boundary")
		}
		if pd.boundary {
			rec.Label("policy-at-boundary")
		}
		var sample any
		if nontrivial && rec.WantSample() {
			sample = map[string]any{"case": full, "model": why, "result": st}
		}
		rec.Case(nontrivial, ev.Fingerprint(v.name, ts.UnixNano(), pd.desc), sample)
	})
}

// ---------------------------------------------------------------------------------------------
// Exhaustive single-bit enumeration
// ---------------------------------------------------------------------------------------------

func envInt(name string, def int) int {
	if v, err := strconv.Atoi(os.Getenv(name)); err == nil {
		return v
	}
	return def
}

const exhaustiveRule = "case = enumeration, split over shards: every single-bit flip of each known-good quote (SGX v3: 37 840 bits, TDX v4: 39 488 bits) verified with the vector's collateral, time and policy; thorough tier adds every single-bit flip of each " +
	"vector's TCB info file, QE identity file and issuer chain PEM, and all 255 other values of every byte of the header, length fields, attestation key, QE authentication data and certification data type; oracle = same as TestC18QuoteMutants / " +
	"TestC18CollateralMutants (rejected OR identical identity and report data with all signed bytes unchanged / only Intel-signed collateral bodies); non-trivial = the mutant still decodes (Quote.UnmarshalBinary, resp. JSON of the collateral) and reaches verification; distinct = (vector, object, bit or byte/value)"

func TestC18SingleBitExhaustive(t *testing.T) {
	rec := ev.New("C18", "TestC18SingleBitExhaustive", exhaustiveRule)
	defer rec.Flush()
	f, err := loadFixtures()
	if err != nil {
		ev.Infra(t, "fixtures: %v", err)
	}
	shard, nshards := envInt("VERIF_SHARD", 0), envInt("VERIF_NSHARDS", 1)
	if nshards < 1 || shard < 0 || shard >= nshards {
		ev.Infra(t, "bad VERIF_SHARD/VERIF_NSHARDS")
	}
	stride := envInt("VERIF_C18_STRIDE", 1) // quick tier may thin the enumeration deterministically (check.json)
	idx := 0
	mine := func() bool {
		idx++
		return idx%nshards == shard
	}
	var acceptedBits []string
	quoteCase := func(v *vector, m []byte, what string, key ...any) {
		lastCase = &caseTrace{Test: "TestC18SingleBitExhaustive", Vector: v.name, Kind: "exhaustive", Desc: what, Quote: hex.EncodeToString(m)}
		pol := v.policy
		vd := runVerify(m, &v.bundle, v.ts, &pol, false)
		st := "parse"
		if vd.parsed {
			st = stageOf(vd.err)
		}
		if vd.err == nil {
			regions := checkAcceptedQuote(t, v, m, vd, what)
			rec.Label("accepted-identical")
			rec.Label("accepted-identical:" + strings.Join(regions, "+"))
			if len(acceptedBits) < 40 {
				acceptedBits = append(acceptedBits, v.name+": "+what)
			}
		} else {
			rec.Label("rejected-at:" + st)
		}
		var sample any
		if vd.parsed && rec.WantSample() {
			sample = map[string]any{"vector": v.name, "mutation": what, "result": st}
		}
		rec.Case(vd.parsed, ev.Fingerprint(append([]any{v.name}, key...)...), sample)
	}
	for _, v := range f.vecs {
		flds := v.fields()
		nameOf := func(pos int) string {
			for _, fl := range flds {
				if pos >= fl.a && pos < fl.b {
					return fl.name
				}
			}
			return "?"
		}
		for bit := 0; bit < len(v.quote)*8; bit++ {
			if !mine() || bit%stride != 0 {
				continue
			}
			m := cp(v.quote)
			m[bit/8] ^= 1 << (bit % 8)
			quoteCase(v, m, fmt.Sprintf("flip bit %d (byte %d, %s)", bit, bit/8, nameOf(bit/8)), "quote-bit", bit)
		}
		if !ev.Thorough() {
			continue
		}
		l := v.lay
		for _, sp := range []span{l.hdr, l.sigLen, l.att, l.outer, l.authLen, l.auth, l.certType, l.certLen} {
			for pos := sp.a; pos < sp.b; pos++ {
				for x := 1; x < 256; x++ {
					if !mine() {
						continue
					}
					m := cp(v.quote)
					m[pos] ^= byte(x)
					quoteCase(v, m, fmt.Sprintf("byte %d (%s) ^= %02x", pos, nameOf(pos), x), "quote-byte", pos, x)
				}
			}
		}
		files := []struct {
			name string
			data []byte
		}{{"tcb-info", v.col.tcbFile}, {"qe-identity", v.col.qeFile}, {"certs", v.col.certs}}
		for fi, fl := range files {
			for bit := 0; bit < len(fl.data)*8; bit++ {
				if !mine() {
					continue
				}
				c := colCase{tcbFile: v.col.tcbFile, qeFile: v.col.qeFile, certs: v.col.certs, quote: v.quote, base: v, quoteFMSPC: v.fmspc, quoteTDX: v.tdx, ts: v.ts, pol: v.policy}
				m := cp(fl.data)
				m[bit/8] ^= 1 << (bit % 8)
				switch fi {
				case 0:
					c.tcbFile = m
				case 1:
					c.qeFile = m
				case 2:
					c.certs = m
				}
				what := fmt.Sprintf("%s: %s file flip bit %d", v.name, fl.name, bit)
				lastCase = &caseTrace{Test: "TestC18SingleBitExhaustive", Vector: v.name, Kind: "exhaustive-collateral", Desc: what, TCB: string(c.tcbFile), QE: string(c.qeFile), Certs: string(c.certs)}
				fp := ev.Fingerprint(v.name, fl.name, bit)
				b, ok := bundleOf(c.tcbFile, c.qeFile, c.certs)
				if !ok {
					rec.Label("collateral-rejected-at:json-decoding")
					rec.Case(false, fp, nil)
					continue
				}
				vd := runVerify(c.quote, &b, c.ts, &c.pol, false)
				if vd.err == nil {
					f.checkAcceptedCollateral(t, &c, &b, vd, what)
					rec.Label("collateral-accepted-identical:" + fl.name)
				} else {
					rec.Label("collateral-rejected-at:" + stageOf(vd.err))
				}
				rec.Case(true, fp, nil)
			}
		}
	}
	sort.Strings(acceptedBits)
	if len(acceptedBits) > 0 {
		rec.Extra("accepted_single_bit_mutants_of_one_shard_first_40", acceptedBits)
	}
}

// ---------------------------------------------------------------------------------------------
// Foreign-platform collateral under the lax TCB-status configuration
// ---------------------------------------------------------------------------------------------

const foreignRule = "case = enumeration (own process: pcs.SetUnsafeLaxVerify() is switched on, the configuration in which out-of-date TCB levels are tolerated): each of the 3 genuine quotes (SGX 00606A, TDX C0806F, out-of-date TDX 50806F) x TCB info of each of the 3 genuine " +
	"collateral sets x QE identity of each set x 14 verification times (vector times, issue dates, +1h, 2025) x {maximally permissive policy, vector policy}; oracle = accepted => the TCB info's FMSPC equals the FMSPC of the quote's PCK certificate, " +
	"TCB info / QE identity ids match the quote's TEE type, the signed bodies are Intel-signed fixture objects, and for the two known-good quotes identity and report data are the original's; " +
	"non-trivial = combination with a TCB info of another platform or TEE that no earlier check rejected (outcome: rejected by the FMSPC/id comparison, by the TCB level, or accepted); distinct = (quote, TCB info, QE identity, time, policy)"

// laxModeOn records that this process switched the lax TCB status mode on (irreversible).
var laxModeOn bool

// TestC18ForeignPlatformLax must run in its own process (the driver does that): the lax mode
// cannot be switched off again.
func TestC18ForeignPlatformLax(t *testing.T) {
	rec := ev.New("C18", "TestC18ForeignPlatformLax", foreignRule,
		"pcs.SetUnsafeLaxVerify only relaxes the TCB status (OutOfDate / ConfigurationNeeded tolerated); platform binding, signatures and validity are still required")
	defer rec.Flush()
	f, err := loadFixtures()
	if err != nil {
		ev.Infra(t, "fixtures: %v", err)
	}
	pcs.SetUnsafeLaxVerify()
	laxModeOn = true
	type qsrc struct {
		name  string
		quote []byte
		base  *vector
		fmspc string
		tdx   bool
		pol   pcs.QuotePolicy
	}
	quotes := []qsrc{
		{f.vecs[0].name, f.vecs[0].quote, f.vecs[0], f.vecs[0].fmspc, false, f.vecs[0].policy},
		{f.vecs[1].name, f.vecs[1].quote, f.vecs[1], f.vecs[1].fmspc, true, f.vecs[1].policy},
		{"tdx-v4-out-of-date", f.otherQ[1], nil, "50806F000000", true, f.vecs[1].policy},
	}
	// the FMSPC of the third quote, from its own PCK certificate
	if dl, ok := parseLayout(f.otherQ[1]); ok {
		if cs, err := parsePEMCerts(f.otherQ[1][dl.cert.a:dl.cert.b]); err == nil && len(cs) == 3 {
			if fm, err := fmspcOf(cs[0]); err == nil {
				quotes[2].fmspc = fm
			}
		}
	}
	var times []time.Time
	for _, u := range []int64{1671497404, 1687091776, 1725263032, 1740000000} {
		times = append(times, time.Unix(u, 0).UTC())
	}
	for _, c := range f.cols {
		times = append(times, c.tcbIssue, c.qeIssue, c.tcbIssue.Add(time.Hour))
	}
	times = append(times, f.cols[1].tcbIssue.Add(-time.Second))
	for _, q := range quotes {
		for _, tc := range f.cols {
			for _, qc := range f.cols {
				for _, ts := range times {
					for pi, pol := range []pcs.QuotePolicy{laxPolicy(), q.pol} {
						c := colCase{tcbFile: tc.tcbFile, qeFile: qc.qeFile, certs: tc.certs, quote: q.quote, base: q.base, quoteFMSPC: q.fmspc, quoteTDX: q.tdx, ts: ts, pol: pol}
						what := fmt.Sprintf("quote %s (FMSPC %s) with TCB info of %s, QE identity of %s at %d, policy %d, lax TCB status mode", q.name, q.fmspc, tc.name, qc.name, ts.Unix(), pi)
						lastCase = &caseTrace{Test: "TestC18ForeignPlatformLax", Vector: q.name, Kind: "foreign-platform", Desc: what}
						b, ok := bundleOf(c.tcbFile, c.qeFile, c.certs)
						if !ok {
							ev.Infra(t, "fixture collateral is not JSON")
						}
						vd := runVerify(c.quote, &b, ts, &pol, pi == 1)
						st := stageOf(vd.err)
						foreign := !strings.EqualFold(tc.tcbFMSPC, q.fmspc)
						if vd.err == nil {
							f.checkAcceptedCollateral(t, &c, &b, vd, what)
							rec.Label("accepted:" + q.name + "+" + tc.name + "+" + qc.name)
						} else {
							rec.Label("rejected-at:" + st)
						}
						if foreign {
							rec.Label("foreign-outcome:" + st)
							if st == "tcb-level" {
								t.Logf("%s: %v", what, vd.err)
							}
						}
						nontrivial := foreign && (st == "tcb-fmspc" || st == "tcb-id-version" || st == "tcb-level" || st == "accepted")
						var sample any
						if nontrivial && st == "tcb-fmspc" && rec.WantSample() {
							sample = map[string]any{"case": what, "result": st}
						}
						rec.Case(nontrivial, ev.Fingerprint(q.name, tc.name, qc.name, ts.UnixNano(), pi), sample)
					}
				}
			}
		}
	}
}

// ---------------------------------------------------------------------------------------------
// TCB bundle binding: TCBBundle.Verify with the platform data of the quote replaced
// ---------------------------------------------------------------------------------------------

type mEnclaveLevel struct {
	TCB struct {
		ISVSVN uint16 `json:"isvsvn"`
	} `json:"tcb"`
	Status string `json:"tcbStatus"`
}

type mTCBInfo struct {
	ID     string `json:"id"`
	FMSPC  string `json:"fmspc"`
	Levels []struct {
		TCB struct {
			PCESVN uint16 `json:"pcesvn"`
			SGX    [16]struct {
				SVN int32 `json:"svn"`
			} `json:"sgxtcbcomponents"`
			TDX [16]struct {
				SVN int32 `json:"svn"`
			} `json:"tdxtcbcomponents"`
		} `json:"tcb"`
		Status string `json:"tcbStatus"`
	} `json:"tcbLevels"`
	Modules []struct {
		ID     string          `json:"id"`
		Levels []mEnclaveLevel `json:"tcbLevels"`
	} `json:"tdxModuleIdentities"`
}

type mQEIdentity struct {
	ID             string          `json:"id"`
	MiscSelect     string          `json:"miscselect"`
	MiscSelectMask string          `json:"miscselectMask"`
	Attributes     string          `json:"attributes"`
	AttributesMask string          `json:"attributesMask"`
	MRSIGNER       string          `json:"mrsigner"`
	ISVProdID      uint16          `json:"isvprodid"`
	Levels         []mEnclaveLevel `json:"tcbLevels"`
}

// platformModel is the test's own reading of Intel's TCB evaluation rules (PCS API documentation,
// "TCB Info" and "Enclave Identity" sections): which platform data may be accepted with a
// given TCB info / QE identity. It returns the reasons for which acceptance is forbidden.
func platformModel(ti *mTCBInfo, qi *mQEIdentity, tdx bool, fmspc []byte, sgxSvn [16]int32, tdxSvn *[16]byte, pcesvn uint16, qeReport []byte) []string {
	var why []string
	want, err := hex.DecodeString(ti.FMSPC)
	if err != nil || !bytes.Equal(want, fmspc) {
		why = append(why, "fmspc-of-another-platform")
	}
	if (tdx && (ti.ID != "TDX" || qi.ID != "TD_QE")) || (!tdx && (ti.ID != "SGX" || qi.ID != "QE")) {
		why = append(why, "collateral-of-another-tee")
	}
	// platform TCB level: first level whose components are all <= the platform's
	status := ""
	for _, l := range ti.Levels {
		ok := pcesvn >= l.TCB.PCESVN
		for i := 0; i < 16; i++ {
			if sgxSvn[i] < l.TCB.SGX[i].SVN {
				ok = false
			}
		}
		if tdx && tdxSvn != nil {
			from := 0
			if tdxSvn[1] != 0 {
				from = 2
			}
			for i := from; i < 16; i++ {
				if int32(tdxSvn[i]) < l.TCB.TDX[i].SVN {
					ok = false
				}
			}
		}
		if ok {
			status = l.Status
			break
		}
	}
	if status != "UpToDate" && status != "SWHardeningNeeded" {
		why = append(why, "platform-tcb-status-not-allowed:"+status)
	}
	if tdx && tdxSvn != nil && tdxSvn[1] >= 1 {
		mstatus := ""
		id := fmt.Sprintf("TDX_%02d", tdxSvn[1])
		for _, m := range ti.Modules {
			if m.ID != id {
				continue
			}
			for _, l := range m.Levels {
				if l.TCB.ISVSVN <= uint16(tdxSvn[0]) {
					mstatus = l.Status
					break
				}
			}
			break
		}
		if mstatus != "UpToDate" {
			why = append(why, "tdx-module-tcb-status-not-allowed:"+mstatus)
		}
	}
	// QE identity
	ms, _ := hex.DecodeString(qi.MRSIGNER)
	if !bytes.Equal(ms, qeReport[128:160]) {
		why = append(why, "qe-mrsigner-mismatch")
	}
	if qi.ISVProdID != binary.LittleEndian.Uint16(qeReport[256:]) {
		why = append(why, "qe-isvprodid-mismatch")
	}
	mis, _ := hex.DecodeString(qi.MiscSelect)
	mism, _ := hex.DecodeString(qi.MiscSelectMask)
	if len(mis) != 4 || len(mism) != 4 || binary.LittleEndian.Uint32(qeReport[16:])&binary.LittleEndian.Uint32(mism) != binary.LittleEndian.Uint32(mis) {
		why = append(why, "qe-miscselect-mismatch")
	}
	at, _ := hex.DecodeString(qi.Attributes)
	atm, _ := hex.DecodeString(qi.AttributesMask)
	if len(at) != 16 || len(atm) != 16 {
		why = append(why, "qe-attributes-mismatch")
	} else {
		for i := 0; i < 16; i++ {
			if qeReport[48+i]&atm[i] != at[i] {
				why = append(why, "qe-attributes-mismatch")
				break
			}
		}
	}
	qstatus := ""
	for _, l := range qi.Levels {
		if l.TCB.ISVSVN <= binary.LittleEndian.Uint16(qeReport[258:]) {
			qstatus = l.Status
			break
		}
	}
	if qstatus != "UpToDate" {
		why = append(why, "qe-tcb-status-not-allowed:"+qstatus)
	}
	return why
}

const bindingRule = "case = TCBBundle.Verify (the step that binds collateral to the platform) called with the genuine collateral, time and policy of a vector and the platform data of its quote (FMSPC, 16 SGX component SVNs and PCESVN from the PCK certificate, TEE TCB SVNs of the TD report, QE report) " +
	"with 1-3 drawn changes: FMSPC bit flip / other platform's FMSPC / wrong length / empty, TEE type swapped, an SGX or TDX component SVN or the PCESVN set to a level threshold -1/0/+1, 0 or 255, TDX module version/SVN, QE report MRSIGNER / ISVPRODID / MISCSELECT / ATTRIBUTES bit or ISVSVN 0..8, other QE report bytes; " +
	"oracle = independent model of Intel's TCB evaluation written from the PCS documentation (FMSPC equality, first matching TCB level must be UpToDate or SWHardeningNeeded, TDX module level UpToDate, QE identity fields under masks, QE level UpToDate): model forbids => must be rejected; " +
	"model allows => must be accepted; non-trivial = at least one input differs from the genuine call and the genuine call itself is accepted (checked at start-up); distinct = (vector, all inputs)"

func TestC18BundleBinding(t *testing.T) {
	if laxModeOn {
		t.Skip("the lax TCB status mode was switched on earlier in this process; the model below is for the strict mode")
	}
	rec := ev.New("C18", "TestC18BundleBinding", bindingRule,
		"ConfigurationNeeded, ConfigurationAndSWHardeningNeeded, OutOfDate*, Revoked and missing TCB statuses are not acceptable outside the lax mode")
	defer rec.Flush()
	f, err := loadFixtures()
	if err != nil {
		ev.Infra(t, "fixtures: %v", err)
	}
	type base struct {
		v      *vector
		ti     mTCBInfo
		qi     mQEIdentity
		fmspc  []byte
		sgx    [16]int32
		tdx    *[16]byte
		pcesvn uint16
		qeRep  []byte
	}
	var bases []*base
	for _, v := range f.vecs {
		b := &base{v: v}
		if err := json.Unmarshal(v.col.tcbInner, &b.ti); err != nil {
			ev.Infra(t, "tcb info: %v", err)
		}
		if err := json.Unmarshal(v.col.qeInner, &b.qi); err != nil {
			ev.Infra(t, "qe identity: %v", err)
		}
		var q pcs.Quote
		if err := q.UnmarshalBinary(v.quote); err != nil {
			ev.Infra(t, "quote: %v", err)
		}
		qs, ok := q.Signature().(*pcs.QuoteSignatureECDSA_P256)
		if !ok {
			ev.Infra(t, "unexpected signature type")
		}
		info, err := qs.VerifyPCK(v.ts)
		if err != nil {
			ev.Infra(t, "VerifyPCK: %v", err)
		}
		b.fmspc, b.sgx, b.pcesvn = cp(info.FMSPC), info.TCBCompSVN, info.PCESVN
		if strings.ToUpper(hex.EncodeToString(b.fmspc)) != v.fmspc {
			ev.Infra(t, "PCKInfo FMSPC %x differs from the test's own parse %s", b.fmspc, v.fmspc)
		}
		if v.tdx {
			var s [16]byte
			copy(s[:], v.quote[v.lay.body.a:v.lay.body.a+16])
			b.tdx = &s
		}
		b.qeRep = cp(v.quote[v.lay.qeRep.a:v.lay.qeRep.b])
		var genuineQE pcs.SgxReport
		if err := genuineQE.UnmarshalBinary(b.qeRep); err != nil {
			ev.Infra(t, "QE report: %v", err)
		}
		genuineTee := pcs.TeeTypeSGX
		if v.tdx {
			genuineTee = pcs.TeeTypeTDX
		}
		gpol := v.policy
		if err := v.bundle.Verify(genuineTee, v.ts, &gpol, b.fmspc, b.sgx, b.tdx, b.pcesvn, &genuineQE); err != nil {
			ev.Infra(t, "genuine TCBBundle.Verify call is rejected: %v", err)
		}
		if why := platformModel(&b.ti, &b.qi, v.tdx, b.fmspc, b.sgx, b.tdx, b.pcesvn, b.qeRep); len(why) > 0 {
			ev.Infra(t, "the independent model rejects the genuine platform data: %v", why)
		}
		bases = append(bases, b)
	}
	otherFMSPC := [][]byte{{0x00, 0x60, 0x6A, 0x00, 0x00, 0x00}, {0xC0, 0x80, 0x6F, 0x00, 0x00, 0x00}, {0x50, 0x80, 0x6F, 0x00, 0x00, 0x00}, {0x00, 0x90, 0x6E, 0xD5, 0x00, 0x00}}
	rapid.Check(t, func(t *rapid.T) {
		b := bases[rapid.IntRange(0, len(bases)-1).Draw(t, "vector")]
		v := b.v
		tee := pcs.TeeTypeSGX
		if v.tdx {
			tee = pcs.TeeTypeTDX
		}
		fmspc, sgxSvn, pcesvn, qeRep := cp(b.fmspc), b.sgx, b.pcesvn, cp(b.qeRep)
		var tdxSvn *[16]byte
		if b.tdx != nil {
			s := *b.tdx
			tdxSvn = &s
		}
		tdx := v.tdx
		// thresholds of the TCB levels, for boundary values
		var descs []string
		n := rapid.SampledFrom([]int{1, 1, 1, 2, 3}).Draw(t, "changes")
		for k := 0; k < n; k++ {
			kinds := []string{"fmspc", "fmspc", "sgx-svn", "sgx-svn", "pcesvn", "qe-field", "qe-field", "qe-isvsvn", "qe-other", "tee"}
			if v.tdx {
				kinds = append(kinds, "tdx-svn", "tdx-svn", "tdx-module")
			}
			switch kind := rapid.SampledFrom(kinds).Draw(t, "kind"); kind {
			case "fmspc":
				switch rapid.IntRange(0, 4).Draw(t, "how") {
				case 0:
					bit := rapid.IntRange(0, 47).Draw(t, "bit")
					if len(fmspc) != 6 {
						fmspc = cp(b.fmspc)
					}
					fmspc[bit/8] ^= 1 << (bit % 8)
					descs = append(descs, fmt.Sprintf("fmspc bit %d flipped", bit))
				case 1:
					fmspc = cp(otherFMSPC[rapid.IntRange(0, len(otherFMSPC)-1).Draw(t, "other")])
					descs = append(descs, fmt.Sprintf("fmspc=%X", fmspc))
				case 2:
					if nl := rapid.IntRange(0, 5).Draw(t, "len"); nl < len(fmspc) {
						fmspc = fmspc[:nl]
					}
					descs = append(descs, fmt.Sprintf("fmspc truncated to %X", fmspc))
				case 3:
					fmspc = append(fmspc, 0)
					descs = append(descs, "fmspc with an extra zero byte")
				case 4:
					fmspc = nil
					descs = append(descs, "fmspc nil")
				}
			case "tee":
				tdx = !tdx
				if tdx {
					tee = pcs.TeeTypeTDX
					if tdxSvn == nil {
						tdxSvn = &[16]byte{}
					}
				} else {
					tee = pcs.TeeTypeSGX
					tdxSvn = nil
				}
				descs = append(descs, "TEE type swapped")
			case "sgx-svn":
				i := rapid.IntRange(0, 15).Draw(t, "comp")
				lv := b.ti.Levels[rapid.IntRange(0, len(b.ti.Levels)-1).Draw(t, "level")].TCB.SGX[i].SVN
				sgxSvn[i] = rapid.SampledFrom([]int32{lv - 1, lv, lv + 1, 0, 255, sgxSvn[i] - 1, sgxSvn[i] + 1, -1}).Draw(t, "val")
				descs = append(descs, fmt.Sprintf("sgx comp %d svn=%d", i, sgxSvn[i]))
			case "pcesvn":
				lv := b.ti.Levels[rapid.IntRange(0, len(b.ti.Levels)-1).Draw(t, "level")].TCB.PCESVN
				pcesvn = rapid.SampledFrom([]uint16{lv - 1, lv, lv + 1, 0, 65535, pcesvn - 1}).Draw(t, "val")
				descs = append(descs, fmt.Sprintf("pcesvn=%d", pcesvn))
			case "tdx-svn":
				if tdxSvn == nil {
					continue
				}
				i := rapid.SampledFrom([]int{0, 2, 2, 3, 7, 15}).Draw(t, "comp")
				lv := b.ti.Levels[rapid.IntRange(0, len(b.ti.Levels)-1).Draw(t, "level")].TCB.TDX[i].SVN
				tdxSvn[i] = byte(rapid.SampledFrom([]int32{lv - 1, lv, lv + 1, 0, 255, 1, 2, 3, 4}).Draw(t, "val"))
				descs = append(descs, fmt.Sprintf("tdx comp %d svn=%d", i, tdxSvn[i]))
			case "tdx-module":
				if tdxSvn == nil {
					continue
				}
				tdxSvn[1] = byte(rapid.SampledFrom([]int{0, 1, 2, 3, 4, 255}).Draw(t, "ver"))
				descs = append(descs, fmt.Sprintf("tdx module version=%d", tdxSvn[1]))
			case "qe-field":
				fl := rapid.SampledFrom([]field{{"mrSigner", span{128, 160}}, {"isvProdID", span{256, 258}}, {"miscSelect", span{16, 20}}, {"attributes.flags", span{48, 56}}, {"attributes.xfrm", span{56, 64}}}).Draw(t, "qeField")
				bit := rapid.IntRange(0, fl.len()*8-1).Draw(t, "bit")
				qeRep[fl.a+bit/8] ^= 1 << (bit % 8)
				descs = append(descs, fmt.Sprintf("QE report %s bit %d flipped", fl.name, bit))
			case "qe-isvsvn":
				x := uint16(rapid.IntRange(0, 8).Draw(t, "isvsvn"))
				binary.LittleEndian.PutUint16(qeRep[258:], x)
				descs = append(descs, fmt.Sprintf("QE report isvsvn=%d", x))
			case "qe-other":
				fl := rapid.SampledFrom([]field{{"cpuSvn", span{0, 16}}, {"reserved1", span{20, 48}}, {"mrEnclave", span{64, 96}}, {"reserved3", span{160, 256}}, {"reportData", span{320, 384}}}).Draw(t, "qeField")
				bit := rapid.IntRange(0, fl.len()*8-1).Draw(t, "bit")
				qeRep[fl.a+bit/8] ^= 1 << (bit % 8)
				descs = append(descs, fmt.Sprintf("QE report %s bit %d flipped (not constrained by the QE identity)", fl.name, bit))
			}
		}
		desc := fmt.Sprintf("%s: TCBBundle.Verify with %s", v.name, strings.Join(descs, ", "))
		lastCase = &caseTrace{Test: "TestC18BundleBinding", Vector: v.name, Kind: "bundle-binding", Desc: desc}
		changed := !bytes.Equal(fmspc, b.fmspc) || sgxSvn != b.sgx || pcesvn != b.pcesvn || !bytes.Equal(qeRep, b.qeRep) || tdx != v.tdx || (tdxSvn != nil && b.tdx != nil && *tdxSvn != *b.tdx)
		if !changed {
			rec.Discard("mutation-is-identity")
			return
		}
		pol := v.policy
		var qe pcs.SgxReport
		if err := qe.UnmarshalBinary(qeRep); err != nil {
			ev.Infra(t, "QE report: %v", err)
		}
		why := platformModel(&b.ti, &b.qi, tdx, fmspc, sgxSvn, tdxSvn, pcesvn, qeRep)
		verr := v.bundle.Verify(tee, v.ts, &pol, fmspc, sgxSvn, tdxSvn, pcesvn, &qe)
		st := stageOf(fmt.Errorf("pcs/quote: failed to verify TCB bundle: %w", verr))
		if verr == nil {
			st = "accepted"
			if len(why) > 0 {
				sig := why[0]
				if i := strings.IndexByte(sig, ':'); i >= 0 {
					sig = sig[:i]
				}
				ev.Violation(t, "accepted-"+sig, "%s: accepted although the independent model requires rejection: %v (fmspc=%X sgx=%v pcesvn=%d tdx=%v qeReport=%x)", desc, why, fmspc, sgxSvn, pcesvn, tdxSvn, qeRep)
			}
			rec.Label("accepted")
		} else {
			if len(why) == 0 {
				ev.Violation(t, "valid-platform-rejected", "%s: rejected (%v) although the independent model allows acceptance (fmspc=%X sgx=%v pcesvn=%d tdx=%v qeReport=%x)", desc, verr, fmspc, sgxSvn, pcesvn, tdxSvn, qeRep)
			}
			rec.Label("rejected-at:" + st)
			for _, w := range why {
				rec.Label("model-reject:" + w)
			}
			if len(why) == 1 {
				rec.Label("sole-reason:" + why[0])
			}
		}
		var sample any
		if rec.WantSample() {
			sample = map[string]any{"case": desc, "model": why, "result": st}
		}
		td := []byte(nil)
		if tdxSvn != nil {
			td = tdxSvn[:]
		}
		rec.Case(true, ev.Fingerprint(v.name, fmspc, fmt.Sprint(sgxSvn), int(pcesvn), td, qeRep, tdx), sample)
	})
}
