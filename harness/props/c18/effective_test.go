package c18

import (
	"errors"
	"fmt"
	"testing"
	"time"

	"pgregory.net/rapid"

	"github.com/oasisprotocol/oasis-core/go/common/cbor"
	"github.com/oasisprotocol/oasis-core/go/common/crypto/signature"
	"github.com/oasisprotocol/oasis-core/go/common/node"
	"github.com/oasisprotocol/oasis-core/go/common/sgx"
	"github.com/oasisprotocol/oasis-core/go/common/sgx/pcs"
	"github.com/oasisprotocol/oasis-core/go/common/sgx/quote"

	"verifharness/ev"
)

// The policy IN EFFECT: a node's attestation is verified with the runtime's own quote policy where it has one and with
// the consensus-wide default policy where it has not (node.TEEFeaturesSGX.ApplyDefaultConstraints inside
// SGXAttestation.Verify / CapabilityTEE.Verify). Every setting the direct verification honours - disabled, validity
// period, minimum TCB evaluation number, FMSPC lists, TDX module rules - has to survive that resolution.

const effectiveRule = "case = a known-good quote + collateral vector, a verification time (vector time or far outside the window), a consensus default policy D and a runtime policy R, each absent or drawn from the policy generator of TestC18TimePolicy " +
	"(disabled, validity period, minimum TCB evaluation number at its boundaries, FMSPC black/whitelists incl. the platform's own, TDX module rules), the PCS feature flag on or off; R is given as a policy object, as nil, or with its PCS " +
	"part missing; the runtime constraints list the enclave identity of the vector and pass through their CBOR form in half of the cases. oracle (differential) = node.SGXAttestation.Verify on the constraints accepts the quote (i.e. gets as " +
	"far as the RAK binding, which the harness cannot satisfy) exactly when pcs.QuoteBundle.Verify called DIRECTLY with the policy in effect accepts it, the policy in effect being computed by the harness from the documented rule: R's PCS " +
	"policy if it has one, else D's if the PCS feature is on, else none. non-trivial = the policy in effect comes from D and D differs from the zero policy; distinct = vector, time class, policies, flags"

// TestC18EffectivePolicy: default / runtime policy resolution keeps every policy setting.
func TestC18EffectivePolicy(t *testing.T) {
	rec := ev.New("C18", "TestC18EffectivePolicy", effectiveRule, "IAS quotes are not covered (no IAS test vectors with a valid signature chain exist offline)")
	defer rec.Flush()
	f, err := loadFixtures()
	if err != nil {
		ev.Infra(t, "fixtures: %v", err)
	}
	var cur string
	ev.Trace = func() any { return cur }
	rapid.Check(t, func(t *rapid.T) {
		v := f.vecs[rapid.IntRange(0, len(f.vecs)-1).Draw(t, "vector")]
		ts := v.ts
		tdesc := "vector-time"
		if rapid.IntRange(0, 5).Draw(t, "farTime") == 0 {
			ts, tdesc = v.ts.Add(400*24*time.Hour), "vector-time+400d"
		}
		dDraw := drawPolicy(t, v)
		rDraw := drawPolicy(t, v)
		pcsFeature := rapid.IntRange(0, 4).Draw(t, "pcsFeature") > 0
		rShape := rapid.SampledFrom([]string{"nil-policy", "nil-policy", "policy-without-pcs", "own-pcs"}).Draw(t, "runtimePolicyShape")
		dPresent := rapid.IntRange(0, 5).Draw(t, "defaultPresent") > 0

		clonePol := func(p *pcs.QuotePolicy) *pcs.QuotePolicy {
			if p == nil {
				return nil
			}
			var c pcs.QuotePolicy
			if err := cbor.Unmarshal(cbor.Marshal(p), &c); err != nil {
				ev.Infra(t, "policy clone: %v", err)
			}
			return &c
		}
		cfg := &node.TEEFeatures{SGX: node.TEEFeaturesSGX{PCS: pcsFeature, DefaultMaxAttestationAge: 1200}}
		if dPresent {
			cfg.SGX.DefaultPolicy = &quote.Policy{PCS: clonePol(dDraw.pol)}
		}
		sc := &node.SGXConstraints{Enclaves: []sgx.EnclaveIdentity{v.want.Identity}}
		sc.V = 1
		switch rShape {
		case "policy-without-pcs":
			sc.Policy = &quote.Policy{}
		case "own-pcs":
			sc.Policy = &quote.Policy{PCS: clonePol(rDraw.pol)}
		}
		// the policy in effect, by the documented rule
		var eff *pcs.QuotePolicy
		from := "none"
		switch {
		case rShape == "own-pcs" && rDraw.pol != nil:
			eff, from = clonePol(rDraw.pol), "runtime"
		case dPresent && pcsFeature && dDraw.pol != nil:
			eff, from = clonePol(dDraw.pol), "default"
		}
		cur = fmt.Sprintf("vector=%s time=%s pcs-feature=%v default=%v(%s) runtime=%s(%s) in-effect=%s", v.name, tdesc, pcsFeature, dPresent, dDraw.desc, rShape, rDraw.desc, from)
		if rapid.Bool().Draw(t, "throughCBOR") {
			var sc2 node.SGXConstraints
			if err := cbor.Unmarshal(cbor.Marshal(sc), &sc2); err != nil {
				rec.Discard("constraints-do-not-round-trip")
				return
			}
			sc = &sc2
		}
		bundle := pcs.QuoteBundle{Quote: cp(v.quote), TCB: v.bundle}
		_, directErr := bundle.Verify(eff, ts)
		att := node.SGXAttestation{Quote: quote.Quote{PCS: &pcs.QuoteBundle{Quote: cp(v.quote), TCB: v.bundle}}, Height: 10}
		att.V = 1
		var rak, nodeID signature.PublicKey
		nodeErr := att.Verify(cfg, ts, 10, sc, rak, nil, nodeID)
		accepted := errors.Is(nodeErr, node.ErrRAKHashMismatch) || nodeErr == nil
		rec.Label(fmt.Sprintf("in-effect=%s:direct-accepts=%v:node-accepts=%v", from, directErr == nil, accepted))
		if directErr != nil && accepted {
			ev.Violation(t, "accepted-against-policy-in-effect", "%s: the quote is REJECTED by direct verification with the policy in effect (%v) but the node-level verification accepts it (%v)", cur, directErr, nodeErr)
		}
		if directErr == nil && !accepted {
			ev.Violation(t, "rejected-despite-policy-in-effect", "%s: the quote is accepted by direct verification with the policy in effect but the node-level verification rejects it: %v", cur, nodeErr)
		}
		nt := from == "default" && (eff.Disabled || eff.MinTCBEvaluationDataNumber != 0 || len(eff.FMSPCBlacklist)+len(eff.FMSPCWhitelist) > 0 || eff.TDX != nil || eff.TCBValidityPeriod != 0)
		rec.Case(nt, ev.Fingerprint(cur), cur)
	})
}
