package c18

import (
	"bytes"
	"crypto/ecdsa"
	"crypto/elliptic"
	"crypto/rand"
	"crypto/sha256"
	"crypto/x509"
	"crypto/x509/pkix"
	"encoding/hex"
	"encoding/pem"
	"fmt"
	"math/big"
	"regexp"
	"testing"
	"time"

	"pgregory.net/rapid"

	"github.com/oasisprotocol/oasis-core/go/common/sgx/pcs"

	"verifharness/ev"
)

// Re-issued collateral. The shipped vectors carry one TCB info and one QE identity per platform, both of the same TCB
// evaluation and issued within seconds of each other, so every policy clause that is applied PER DOCUMENT (minimum TCB
// evaluation data number, issue date, validity period) can only ever be decided by both documents at once. Here the
// harness is a second "Intel": its root certificate is added to pcs.IntelTrustRoots for this test process, and the two
// collateral bodies are re-issued with independently edited evaluation numbers and dates, signed by a TCB signing
// certificate under that root. Quote and PCK chain stay the genuine ones. Everything the verifier checks
// cryptographically is therefore valid; what varies is what the (validly signed) collateral says.

type reissuer struct {
	signKey  *ecdsa.PrivateKey
	certsPEM []byte
	certs    []*x509.Certificate
}

func detKey(seed string) (*ecdsa.PrivateKey, error) {
	d := sha256.Sum256([]byte(seed))
	return ecdsa.ParseRawPrivateKey(elliptic.P256(), d[:])
}

func newReissuer() (*reissuer, error) {
	rootKey, err := detKey("verif C18 stand-in root key")
	if err != nil {
		return nil, err
	}
	signKey, err := detKey("verif C18 stand-in TCB signing key")
	if err != nil {
		return nil, err
	}
	nb, na := time.Date(2017, 1, 1, 0, 0, 0, 0, time.UTC), time.Date(2055, 1, 1, 0, 0, 0, 0, time.UTC)
	rootT := &x509.Certificate{SerialNumber: big.NewInt(1801), Subject: pkix.Name{CommonName: "Stand-in SGX Root CA (verif)"}, NotBefore: nb, NotAfter: na,
		KeyUsage: x509.KeyUsageCertSign | x509.KeyUsageCRLSign, IsCA: true, BasicConstraintsValid: true}
	rootDER, err := x509.CreateCertificate(rand.Reader, rootT, rootT, &rootKey.PublicKey, rootKey)
	if err != nil {
		return nil, err
	}
	root, err := x509.ParseCertificate(rootDER)
	if err != nil {
		return nil, err
	}
	signT := &x509.Certificate{SerialNumber: big.NewInt(1802), Subject: pkix.Name{CommonName: "Stand-in SGX TCB Signing (verif)"}, NotBefore: nb, NotAfter: na,
		KeyUsage: x509.KeyUsageDigitalSignature, BasicConstraintsValid: true}
	signDER, err := x509.CreateCertificate(rand.Reader, signT, root, &signKey.PublicKey, rootKey)
	if err != nil {
		return nil, err
	}
	sign, err := x509.ParseCertificate(signDER)
	if err != nil {
		return nil, err
	}
	pcs.IntelTrustRoots.AddCert(root) // this process only
	r := &reissuer{signKey: signKey, certs: []*x509.Certificate{sign, root}}
	r.certsPEM = append(pem.EncodeToMemory(&pem.Block{Type: "CERTIFICATE", Bytes: signDER}), pem.EncodeToMemory(&pem.Block{Type: "CERTIFICATE", Bytes: rootDER})...)
	return r, nil
}

func (r *reissuer) sign(body []byte) string {
	h := sha256.Sum256(body)
	rr, ss, err := ecdsa.Sign(rand.Reader, r.signKey, h[:])
	if err != nil {
		panic(err)
	}
	out := make([]byte, 64)
	rr.FillBytes(out[:32])
	ss.FillBytes(out[32:])
	return hex.EncodeToString(out)
}

var (
	reEval  = regexp.MustCompile(`"tcbEvaluationDataNumber":\s*\d+`)
	reIssue = regexp.MustCompile(`"issueDate":\s*"[^"]*"`)
	reNext  = regexp.MustCompile(`"nextUpdate":\s*"[^"]*"`)
)

const pcsTime = "2006-01-02T15:04:05Z"

func reissueBody(body []byte, eval uint32, issue, next time.Time) ([]byte, bool) {
	if !reEval.Match(body) || !reIssue.Match(body) || !reNext.Match(body) {
		return nil, false
	}
	b := reEval.ReplaceAll(body, []byte(fmt.Sprintf(`"tcbEvaluationDataNumber":%d`, eval)))
	b = reIssue.ReplaceAll(b, []byte(`"issueDate":"`+issue.UTC().Format(pcsTime)+`"`))
	b = reNext.ReplaceAll(b, []byte(`"nextUpdate":"`+next.UTC().Format(pcsTime)+`"`))
	return b, true
}

const reissueRule = "case = a known-good quote (SGX v3 / TDX v4) with its genuine PCK chain and RE-ISSUED collateral: the harness's own root is added to the trusted roots of this test process and signs a TCB signing certificate; TCB info and QE identity are " +
	"re-issued with independently drawn tcbEvaluationDataNumber (n-2..n+1, 0, 100, where n is the original) and issue dates (original, 10/40 days earlier, 10 days later; nextUpdate = issue + 30 days), validly signed; verification time = the vector's time or within 1 s " +
	"of an issue / expiry boundary of either document; policy as in TestC18TimePolicy (minimum evaluation number around n, validity periods, FMSPC lists, TDX modules). oracle = the same independent model applied PER DOCUMENT: accepted iff no rejection " +
	"reason holds for the TCB info AND none for the QE identity (evaluation number below the minimum, not yet issued, older than the validity period), and an accepted quote yields the original identity and report data. non-trivial = the two documents differ " +
	"in evaluation number or issue date; distinct = (vector, edits, time, policy)"

// TestC18ReissuedCollateral: per-document policy clauses on validly signed collateral.
func TestC18ReissuedCollateral(t *testing.T) {
	rec := ev.New("C18", "TestC18ReissuedCollateral", reissueRule,
		"the harness's stand-in root is trusted only inside this test process (pcs.IntelTrustRoots.AddCert); quote, PCK chain and all other trust roots are the genuine ones",
		"collateral expiry is issueDate + policy TCBValidityPeriod (documented on QuotePolicy); nextUpdate is not a validity bound in oasis-core")
	defer rec.Flush()
	f, err := loadFixtures()
	if err != nil {
		ev.Infra(t, "fixtures: %v", err)
	}
	ri, err := newReissuer()
	if err != nil {
		ev.Infra(t, "stand-in issuer: %v", err)
	}
	// self-test: unchanged bodies re-signed by the stand-in issuer are accepted exactly like the originals
	for _, v := range f.vecs {
		b, ok := bundleOf(signedFile{key: "tcbInfo", inner: v.col.tcbInner, signature: ri.sign(v.col.tcbInner)}.build(),
			signedFile{key: "enclaveIdentity", inner: v.col.qeInner, signature: ri.sign(v.col.qeInner)}.build(), ri.certsPEM)
		if !ok {
			ev.Infra(t, "re-signed collateral of %s does not decode", v.name)
		}
		if vd := runVerify(v.quote, &b, v.ts, &v.policy, false); vd.err != nil {
			ev.Infra(t, "self-test: the unchanged collateral of %s re-signed under the stand-in root is rejected: %v", v.name, vd.err)
		}
	}
	day := 24 * time.Hour
	rapid.Check(t, func(t *rapid.T) {
		v := f.vecs[rapid.IntRange(0, len(f.vecs)-1).Draw(t, "vector")]
		pd := drawPolicy(t, v)
		type edit struct {
			eval        uint32
			issue, next time.Time
		}
		draw := func(label string, eval0 uint32, issue0 time.Time) edit {
			n := int64(eval0)
			ev := rapid.SampledFrom([]int64{n, n, n - 1, n - 2, n + 1, 0, 100}).Draw(t, label+"Eval")
			if ev < 0 {
				ev = 0
			}
			shift := rapid.SampledFrom([]time.Duration{0, 0, -10 * day, -40 * day, 10 * day}).Draw(t, label+"Shift")
			is := issue0.Add(shift)
			return edit{uint32(ev), is, is.Add(30 * day)}
		}
		te := draw("tcb", v.col.tcbEval, v.col.tcbIssue)
		qe := draw("qe", v.col.qeEval, v.col.qeIssue)
		tb, ok1 := reissueBody(v.col.tcbInner, te.eval, te.issue, te.next)
		qb, ok2 := reissueBody(v.col.qeInner, qe.eval, qe.issue, qe.next)
		if !ok1 || !ok2 {
			ev.Infra(t, "collateral body of %s lacks the fields to edit", v.name)
		}
		bundle, ok := bundleOf(signedFile{key: "tcbInfo", inner: tb, signature: ri.sign(tb)}.build(), signedFile{key: "enclaveIdentity", inner: qb, signature: ri.sign(qb)}.build(), ri.certsPEM)
		if !ok {
			ev.Infra(t, "re-issued collateral does not decode")
		}
		// the model's view of the case: the vector with the re-issued collateral and the stand-in TCB signing chain
		v2 := *v
		col2 := *v.col
		col2.tcbEval, col2.qeEval = te.eval, qe.eval
		col2.tcbIssue, col2.tcbNext, col2.qeIssue, col2.qeNext = te.issue, te.next, qe.issue, qe.next
		v2.col = &col2
		v2.tcbX = ri.certs
		validity := uint16(30)
		if pd.pol != nil {
			validity = pd.pol.TCBValidityPeriod
		}
		ts, tdesc, near := v.ts, "vector-time", false
		if rapid.IntRange(0, 2).Draw(t, "timeMode") > 0 {
			bs := []struct {
				name string
				at   time.Time
			}{{"tcb.issueDate", te.issue}, {"qe.issueDate", qe.issue}, {"tcb.issueDate+validity", te.issue.Add(time.Duration(validity) * day)}, {"qe.issueDate+validity", qe.issue.Add(time.Duration(validity) * day)}}
			b := bs[rapid.IntRange(0, len(bs)-1).Draw(t, "boundary")]
			off := []time.Duration{-time.Second, -time.Nanosecond, 0, time.Nanosecond, time.Second}[rapid.IntRange(0, 4).Draw(t, "offset")]
			ts, tdesc, near = b.at.Add(off), fmt.Sprintf("%s%+dns", b.name, off.Nanoseconds()), true
		}
		viaBundle := rapid.IntRange(0, 3).Draw(t, "entry") == 0
		full := fmt.Sprintf("%s re-issued {tcb: eval %d issued %s; qe: eval %d issued %s} at %d.%09d (%s) under {%s}", v.name, te.eval, te.issue.UTC().Format(pcsTime), qe.eval, qe.issue.UTC().Format(pcsTime), ts.Unix(), ts.Nanosecond(), tdesc, pd.desc)
		lastCase = &caseTrace{Test: "TestC18ReissuedCollateral", Vector: v.name, Kind: "reissued", Desc: full}
		why := v2.mustReject(ts, pd.pol)
		vd := runVerify(v.quote, &bundle, ts, pd.pol, viaBundle)
		if !vd.parsed {
			ev.Infra(t, "known-good quote does not parse")
		}
		if vd.err == nil {
			if len(why) > 0 {
				ev.Violation(t, "accepted-"+why[0], "%s: accepted although the independent model requires rejection: %v", full, why)
			}
			vq := vd.vq
			if vq == nil || vq.Identity.MrEnclave != v.want.Identity.MrEnclave || vq.Identity.MrSigner != v.want.Identity.MrSigner || !bytes.Equal(vq.ReportData, v.want.ReportData) {
				ev.Violation(t, "identity-changed", "%s: accepted with a different identity/report data: %+v", full, vq)
			}
			rec.Label("accepted")
		} else {
			if len(why) == 0 {
				ev.Violation(t, "valid-rejected", "%s: rejected (%v) although nothing in the independent model forbids acceptance", full, vd.err)
			}
			rec.Label("rejected-at:" + stageOf(vd.err))
			for _, w := range why {
				rec.Label("model-reject:" + w)
			}
			if len(why) == 1 {
				rec.Label("sole-reason:" + why[0])
			}
		}
		asym := te.eval != qe.eval || !te.issue.Equal(qe.issue)
		if asym {
			rec.Label("documents-differ")
		}
		if te.eval != qe.eval && pd.pol != nil {
			lo, hi := te.eval, qe.eval
			if lo > hi {
				lo, hi = hi, lo
			}
			if m := pd.pol.MinTCBEvaluationDataNumber; m > lo && m <= hi {
				rec.Label(fmt.Sprintf("minimum-evaluation-between-the-documents:tcb-is-older=%v", te.eval < qe.eval))
			}
		}
		var sample any
		if asym && rec.WantSample() {
			sample = map[string]any{"case": full, "model": why, "accepted": vd.err == nil}
		}
		rec.Case(asym || near, ev.Fingerprint(v.name, te.eval, qe.eval, te.issue.Unix(), qe.issue.Unix(), ts.UnixNano(), pd.desc), sample)
	})
}
