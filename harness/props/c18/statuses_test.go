package c18

import (
	"bytes"
	"encoding/hex"
	"encoding/json"
	"fmt"
	"strings"
	"testing"

	"pgregory.net/rapid"

	"github.com/oasisprotocol/oasis-core/go/common/sgx/pcs"

	"verifharness/ev"
)

// Re-issued collateral with other TCB STATUSES. The shipped vectors carry the statuses Intel happened to publish for
// these platforms (UpToDate, OutOfDate and a few "...Needed" ones on platform levels; UpToDate / OutOfDate only on TDX
// module and QE identity levels), so a verifier that treats only those values correctly passes every vector. Here the
// stand-in issuer of TestC18ReissuedCollateral re-issues TCB info and QE identity with the status of drawn TCB levels
// rewritten to any value of Intel's list, to an unknown string, or removed; quote and PCK chain stay genuine.

var allStatuses = []string{"UpToDate", "SWHardeningNeeded", "ConfigurationNeeded", "ConfigurationAndSWHardeningNeeded", "OutOfDate", "OutOfDateConfigurationNeeded", "Revoked", "", "NotAStatus"}

const statusesRule = "case = a known-good quote (SGX v3 / TDX v4) with its genuine PCK chain and collateral RE-ISSUED by the stand-in issuer (own root trusted inside this test process) in which 1-2 TCB levels - of the platform TCB " +
	"levels, of a TDX module identity, of the QE identity; the level the quote matches or another one, or all levels of the list - carry another tcbStatus: any of Intel's seven values, an unknown string, or no status field; genuine time and policy. " +
	"oracle = the independent model of Intel's TCB evaluation used by TestC18BundleBinding applied to the re-issued documents and the genuine platform data: accepted iff the first matching platform level is UpToDate or SWHardeningNeeded, " +
	"the matching TDX module level UpToDate and the matching QE identity level UpToDate; an accepted quote yields the original identity. non-trivial = the status of a level the quote matches was changed; distinct = (vector, edits)"

// editStatus rewrites the tcbStatus of level idx (-1 = all) of the level list at path in a JSON document.
func editStatus(doc map[string]any, module int, idx int, status string) (n int) {
	var levels []any
	if module >= 0 {
		mods, _ := doc["tdxModuleIdentities"].([]any)
		if module >= len(mods) {
			return 0
		}
		m, _ := mods[module].(map[string]any)
		levels, _ = m["tcbLevels"].([]any)
	} else {
		levels, _ = doc["tcbLevels"].([]any)
	}
	for i, l := range levels {
		if idx >= 0 && i != idx {
			continue
		}
		lm, ok := l.(map[string]any)
		if !ok {
			continue
		}
		if status == "" {
			delete(lm, "tcbStatus")
		} else {
			lm["tcbStatus"] = status
		}
		n++
	}
	return n
}

func decodeDoc(inner []byte) (map[string]any, error) {
	d := json.NewDecoder(bytes.NewReader(inner))
	d.UseNumber()
	var doc map[string]any
	err := d.Decode(&doc)
	return doc, err
}

// TestC18ReissuedStatuses: every TCB status on every kind of TCB level, on validly signed collateral.
func TestC18ReissuedStatuses(t *testing.T) {
	if laxModeOn {
		t.Skip("the lax TCB status mode was switched on earlier in this process; the model below is for the strict mode")
	}
	rec := ev.New("C18", "TestC18ReissuedStatuses", statusesRule,
		"the harness's stand-in root is trusted only inside this test process (pcs.IntelTrustRoots.AddCert); quote, PCK chain and all other trust roots are the genuine ones",
		"ConfigurationNeeded, ConfigurationAndSWHardeningNeeded, OutOfDate*, Revoked, unknown and missing TCB statuses are not acceptable outside the lax mode")
	defer rec.Flush()
	f, err := loadFixtures()
	if err != nil {
		ev.Infra(t, "fixtures: %v", err)
	}
	ri, err := newReissuer()
	if err != nil {
		ev.Infra(t, "stand-in issuer: %v", err)
	}
	type base struct {
		v      *vector
		fmspc  []byte
		sgx    [16]int32
		tdx    *[16]byte
		pcesvn uint16
		qeRep  []byte
	}
	var bases []*base
	for _, v := range f.vecs {
		b := &base{v: v}
		var q pcs.Quote
		if err := q.UnmarshalBinary(v.quote); err != nil {
			ev.Infra(t, "quote: %v", err)
		}
		qs, ok := q.Signature().(*pcs.QuoteSignatureECDSA_P256)
		if !ok {
			ev.Infra(t, "unexpected signature type")
		}
		info, err := qs.VerifyPCK(v.ts)
		if err != nil {
			ev.Infra(t, "VerifyPCK: %v", err)
		}
		b.fmspc, b.sgx, b.pcesvn = cp(info.FMSPC), info.TCBCompSVN, info.PCESVN
		if strings.ToUpper(hex.EncodeToString(b.fmspc)) != v.fmspc {
			ev.Infra(t, "PCKInfo FMSPC %x differs from the test's own parse %s", b.fmspc, v.fmspc)
		}
		if v.tdx {
			var s [16]byte
			copy(s[:], v.quote[v.lay.body.a:v.lay.body.a+16])
			b.tdx = &s
		}
		b.qeRep = cp(v.quote[v.lay.qeRep.a:v.lay.qeRep.b])
		// self-test: the documents decoded and encoded again by the harness, re-signed, are accepted like the originals
		td, err1 := decodeDoc(v.col.tcbInner)
		qd, err2 := decodeDoc(v.col.qeInner)
		if err1 != nil || err2 != nil {
			ev.Infra(t, "collateral of %s does not decode: %v %v", v.name, err1, err2)
		}
		tb, _ := json.Marshal(td)
		qb, _ := json.Marshal(qd)
		bundle, ok := bundleOf(signedFile{key: "tcbInfo", inner: tb, signature: ri.sign(tb)}.build(), signedFile{key: "enclaveIdentity", inner: qb, signature: ri.sign(qb)}.build(), ri.certsPEM)
		if !ok {
			ev.Infra(t, "re-encoded collateral of %s does not decode", v.name)
		}
		if vd := runVerify(v.quote, &bundle, v.ts, &v.policy, false); vd.err != nil {
			ev.Infra(t, "self-test: the re-encoded collateral of %s re-signed under the stand-in root is rejected: %v", v.name, vd.err)
		}
		var ti mTCBInfo
		var qi mQEIdentity
		if json.Unmarshal(tb, &ti) != nil || json.Unmarshal(qb, &qi) != nil {
			ev.Infra(t, "model cannot read the collateral of %s", v.name)
		}
		if why := platformModel(&ti, &qi, v.tdx, b.fmspc, b.sgx, b.tdx, b.pcesvn, b.qeRep); len(why) > 0 {
			ev.Infra(t, "the independent model rejects the genuine collateral of %s: %v", v.name, why)
		}
		bases = append(bases, b)
	}
	rapid.Check(t, func(t *rapid.T) {
		b := bases[rapid.IntRange(0, len(bases)-1).Draw(t, "vector")]
		v := b.v
		td, _ := decodeDoc(v.col.tcbInner)
		qd, _ := decodeDoc(v.col.qeInner)
		var ti0 mTCBInfo
		var qi0 mQEIdentity
		_ = json.Unmarshal(v.col.tcbInner, &ti0)
		_ = json.Unmarshal(v.col.qeInner, &qi0)
		targets := []string{"platform", "qe", "platform", "qe"}
		if v.tdx {
			targets = append(targets, "tdx-module", "tdx-module", "tdx-module")
		}
		var descs []string
		// a status outside Intel's list anywhere in a document makes the verifier refuse the whole document (fail closed):
		// such a rejection is accepted from it even when the level concerned is not one the quote matches
		unknownUsed := false
		for k := rapid.SampledFrom([]int{1, 1, 2}).Draw(t, "edits"); k > 0; k-- {
			target := rapid.SampledFrom(targets).Draw(t, "target")
			status := rapid.SampledFrom(allStatuses).Draw(t, "status")
			shown := status
			if status == "NotAStatus" {
				unknownUsed = true
			}
			if shown == "" {
				shown = "<no status field>"
			}
			var n, nlev int
			idx := -1
			switch target {
			case "platform":
				nlev = len(ti0.Levels)
			case "qe":
				nlev = len(qi0.Levels)
			}
			module := -1
			if target == "tdx-module" {
				if len(ti0.Modules) == 0 {
					continue
				}
				module = rapid.IntRange(0, len(ti0.Modules)-1).Draw(t, "module")
				nlev = len(ti0.Modules[module].Levels)
			}
			if nlev > 0 && rapid.IntRange(0, 3).Draw(t, "allLevels") > 0 {
				idx = rapid.IntRange(0, nlev-1).Draw(t, "level")
			}
			if target == "qe" {
				n = editStatus(qd, -1, idx, status)
			} else {
				n = editStatus(td, module, idx, status)
			}
			where := target
			if module >= 0 {
				where += " " + ti0.Modules[module].ID
			}
			if idx >= 0 {
				where += fmt.Sprintf(" level %d", idx)
			} else {
				where += " all levels"
			}
			descs = append(descs, fmt.Sprintf("%s: tcbStatus=%s (%d levels)", where, shown, n))
		}
		tb, _ := json.Marshal(td)
		qb, _ := json.Marshal(qd)
		bundle, ok := bundleOf(signedFile{key: "tcbInfo", inner: tb, signature: ri.sign(tb)}.build(), signedFile{key: "enclaveIdentity", inner: qb, signature: ri.sign(qb)}.build(), ri.certsPEM)
		full := fmt.Sprintf("%s with re-issued collateral {%s}", v.name, strings.Join(descs, "; "))
		lastCase = &caseTrace{Test: "TestC18ReissuedStatuses", Vector: v.name, Kind: "reissued-statuses", Desc: full}
		var ti mTCBInfo
		var qi mQEIdentity
		if json.Unmarshal(tb, &ti) != nil || json.Unmarshal(qb, &qi) != nil {
			ev.Infra(t, "model cannot read the edited collateral")
		}
		why := platformModel(&ti, &qi, v.tdx, b.fmspc, b.sgx, b.tdx, b.pcesvn, b.qeRep)
		if !ok {
			// the verifier's own decoder refuses the document (e.g. a status it does not know): a rejection
			if len(why) == 0 && !unknownUsed {
				ev.Violation(t, "valid-rejected", "%s: the collateral does not decode although nothing in the independent model forbids acceptance", full)
			}
			rec.Label("rejected-at:decode")
			rec.Case(true, ev.Fingerprint(v.name, descs), nil)
			return
		}
		viaBundle := rapid.IntRange(0, 3).Draw(t, "entry") == 0
		vd := runVerify(v.quote, &bundle, v.ts, &v.policy, viaBundle)
		if !vd.parsed {
			ev.Infra(t, "known-good quote does not parse")
		}
		if vd.err == nil {
			if len(why) > 0 {
				ev.Violation(t, "accepted-"+strings.SplitN(why[0], ":", 2)[0], "%s: accepted although the independent model requires rejection: %v", full, why)
			}
			vq := vd.vq
			if vq == nil || vq.Identity.MrEnclave != v.want.Identity.MrEnclave || vq.Identity.MrSigner != v.want.Identity.MrSigner || !bytes.Equal(vq.ReportData, v.want.ReportData) {
				ev.Violation(t, "identity-changed", "%s: accepted with a different identity/report data: %+v", full, vq)
			}
			rec.Label("accepted")
		} else {
			if len(why) == 0 && !unknownUsed {
				ev.Violation(t, "valid-rejected", "%s: rejected (%v) although nothing in the independent model forbids acceptance", full, vd.err)
			}
			rec.Label("rejected-at:" + stageOf(vd.err))
			for _, w := range why {
				rec.Label("model-reject:" + strings.SplitN(w, ":", 2)[0])
			}
		}
		// non-trivial: the verdict-relevant status changed (the model's reasons differ from the genuine collateral's: none)
		var sample any
		if rec.WantSample() {
			sample = map[string]any{"case": full, "model": why, "accepted": vd.err == nil}
		}
		rec.Case(len(why) > 0 || vd.err == nil, ev.Fingerprint(v.name, descs), sample)
	})
}
