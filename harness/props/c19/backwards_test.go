package c19

import (
	"context"
	"errors"
	"fmt"
	"os"
	"path/filepath"
	"sync"
	"testing"
	"time"

	cmtlight "github.com/cometbft/cometbft/light"
	cmttypes "github.com/cometbft/cometbft/types"
	"github.com/libp2p/go-libp2p/core"
	"pgregory.net/rapid"

	consensus "github.com/oasisprotocol/oasis-core/go/consensus/api"
	"github.com/oasisprotocol/oasis-core/go/consensus/cometbft/light"
	"github.com/oasisprotocol/oasis-core/go/consensus/cometbft/stateless"
	p2plight "github.com/oasisprotocol/oasis-core/go/consensus/p2p/light"
	"github.com/oasisprotocol/oasis-core/go/p2p/rpc"

	"verifharness/ev"
)

// HISTORICAL heights: the light client's trust root is the recorded block H+1 and the caller asks for H, which the
// CometBFT light client verifies BACKWARDS (hash chain only: header H must be the one header H+1 names as its
// predecessor; signatures and validator sets are not looked at on that path, the provider's own ValidateBasic is what
// ties the validator set of a light block to its header).

// SigBackwardsTarget is the signature of the recorded finding: the vendored CometBFT light client verifies a re-fetched
// copy of the target header backwards but stores and returns the copy it fetched FIRST without comparing the two.
const SigBackwardsTarget = "backwards-target-header-unverified"

type backwardsScript struct {
	mu       sync.Mutex
	fx       *fixtures
	strategy string
	calls    map[int64]int
}

func cloneLightBlock(lb *cmttypes.LightBlock) *cmttypes.LightBlock {
	pb, err := lb.ToProto()
	if err != nil {
		panic(err)
	}
	c, err := cmttypes.LightBlockFromProto(pb)
	if err != nil {
		panic(err)
	}
	return c
}

// forgedHeader: a self-consistent light block of height H whose header differs from the genuine one (another AppHash);
// the commit names the forged header's hash (signatures become invalid, which nothing on the backwards path checks).
func forgedHeader(lb *cmttypes.LightBlock) *cmttypes.LightBlock {
	f := cloneLightBlock(lb)
	f.Header.AppHash = append([]byte{}, f.Header.AppHash...)
	f.Header.AppHash[0] ^= 0x01
	f.Commit.BlockID.Hash = f.Header.Hash()
	return f
}

// foreignValidators: the genuine signed header of H with ANOTHER validator set (one validator's voting power changed).
func foreignValidators(lb *cmttypes.LightBlock, how int) *cmttypes.LightBlock {
	f := cloneLightBlock(lb)
	vals := f.ValidatorSet.Copy()
	switch how % 3 {
	case 0:
		vals.Validators[0].VotingPower++
	case 1:
		if len(vals.Validators) > 1 {
			vals.Validators = vals.Validators[1:]
		} else {
			vals.Validators[0].VotingPower += 7
		}
	default:
		vals.Validators[len(vals.Validators)-1].ProposerPriority += 13 // (not part of the hash: a harmless re-labelling)
	}
	f.ValidatorSet = &cmttypes.ValidatorSet{Validators: vals.Validators, Proposer: vals.Proposer}
	return f
}

func (s *backwardsScript) lightBlock(peer core.PeerID, height int64) (*consensus.LightBlock, error) {
	s.mu.Lock() // (witnesses are asked from other goroutines)
	defer s.mu.Unlock()
	s.calls[height]++
	var g *cmttypes.LightBlock
	switch height {
	case s.fx.lb.Height:
		g = s.fx.lb
	case s.fx.lb2.Height:
		g = s.fx.lb2
	default:
		return nil, errNoSuchBlock
	}
	if height == s.fx.lb.Height {
		switch s.strategy {
		case "forged-first":
			if s.calls[height] == 1 {
				return light.EncodeLightBlock(forgedHeader(g), height)
			}
		case "forged-always":
			return light.EncodeLightBlock(forgedHeader(g), height)
		case "forged-by-primary":
			if string(peer) == "peer-0" {
				return light.EncodeLightBlock(forgedHeader(g), height)
			}
		case "foreign-validators-power", "foreign-validators-dropped", "foreign-validators-priority":
			how := map[string]int{"foreign-validators-power": 0, "foreign-validators-dropped": 1, "foreign-validators-priority": 2}[s.strategy]
			return light.EncodeLightBlock(foreignValidators(g, how), height)
		case "foreign-validators-first":
			if s.calls[height] == 1 {
				return light.EncodeLightBlock(foreignValidators(g, 0), height)
			}
		}
	}
	return light.EncodeLightBlock(g, height)
}

type backwardsRPC struct{ s *backwardsScript }

func (f backwardsRPC) Call(_ context.Context, peer core.PeerID, method string, body, rsp any, _ ...rpc.CallOption) (rpc.PeerFeedback, error) {
	if method != p2plight.MethodGetLightBlock {
		return nil, rpc.ErrMethodNotSupported
	}
	h, ok := body.(int64)
	if !ok {
		return nil, fmt.Errorf("fake peer: unexpected request body %T", body)
	}
	lb, err := f.s.lightBlock(peer, h)
	if err != nil {
		return nil, err
	}
	*(rsp.(*consensus.LightBlock)) = *lb
	return fakeFeedback{peer}, nil
}

func (f backwardsRPC) CallOne(ctx context.Context, peers []core.PeerID, method string, body, rsp any, opts ...rpc.CallOption) (rpc.PeerFeedback, error) {
	if len(peers) == 0 {
		return nil, errNoSuchBlock
	}
	return f.Call(ctx, peers[0], method, body, rsp, opts...)
}

func (backwardsRPC) CallMulti(context.Context, []core.PeerID, string, any, any, ...rpc.CallMultiOption) ([]any, []rpc.PeerFeedback, error) {
	return nil, nil, rpc.ErrMethodNotSupported
}
func (backwardsRPC) Close(core.PeerID) error               { return nil }
func (backwardsRPC) CloseIdle(core.PeerID) error           { return nil }
func (backwardsRPC) RegisterListener(rpc.ClientListener)   {}
func (backwardsRPC) UnregisterListener(rpc.ClientListener) {}

var backwardsStrategies = []string{"honest", "forged-first", "forged-always", "forged-by-primary", "foreign-validators-power", "foreign-validators-dropped", "foreign-validators-priority", "foreign-validators-first"}

const backwardsRule = "case = stateless.NewCore on a REAL light client whose trust root is the recorded light block H+1; the caller asks for the HISTORICAL height H (verified backwards along the hash chain) through GetLightBlock / GetValidators / " +
	"VerifyLightBlockAt, optionally twice (second answer from the trusted store); the three P2P peers are played by the harness and answer for H with the genuine block, a forged self-consistent block (another AppHash; always, only the " +
	"first time it is asked for, or only by the primary), or the genuine signed header with ANOTHER validator set (a voting power changed, a validator dropped, only the unhashed proposer priority changed; always or only the first time). " +
	"oracle = a successful answer carries height H, its header hashes to the recorded header of H (= what header H+1 names as its predecessor) and its validator set hashes to that header's ValidatorsHash; honest peers must succeed. " +
	"non-trivial = any non-honest strategy; distinct = (strategy, getter, repeated)"

// TestC19LightBlockBackwards: provider data for heights below the trust root.
func TestC19LightBlockBackwards(t *testing.T) {
	rec := ev.New("C19", "TestC19LightBlockBackwards", backwardsRule,
		"trusting period 100 years (recorded headers are old); verification time is the wall clock, as in the node")
	defer rec.Flush()
	runBackwards(t, rec, false)
}

// TestC19KFBackwardsTarget: deterministic probe of known finding backwards-target-header-unverified.
func TestC19KFBackwardsTarget(t *testing.T) {
	rec := ev.New("C19", "TestC19KFBackwardsTarget", "deterministic probe of known finding "+SigBackwardsTarget+": trust root H+1, VerifyLightBlockAt(H), the primary answers the FIRST request for H with a forged self-consistent block and later requests honestly", "")
	defer rec.Flush()
	runBackwards(t, rec, true)
}

func runBackwards(t *testing.T, rec *ev.Recorder, probe bool) {
	fx, err := loadFixtures()
	if err != nil {
		ev.Infra(t, "fixtures: %v", err)
	}
	base, err := os.MkdirTemp(os.Getenv("TMPDIR"), "c19bw")
	if err != nil {
		ev.Infra(t, "tmp: %v", err)
	}
	defer os.RemoveAll(base)
	var cur string
	ev.Trace = func() any { return cur }
	n := 0
	one := func(t ev.Failer, strategy, getter string, twice bool) {
		n++
		cur = fmt.Sprintf("trust-root=H+1 requested=H strategy=%s getter=%s twice=%v", strategy, getter, twice)
		ctx, cancel := context.WithTimeout(context.Background(), 60*time.Second)
		defer cancel()
		dir := filepath.Join(base, fmt.Sprintf("case%d", n))
		defer os.RemoveAll(dir)
		lc, err := light.NewClient(ctx, fx.lb.ChainID+"00000000000000", offlineP2P{}, light.Config{
			GenesisDocument: &cmttypes.GenesisDoc{ChainID: fx.lb.ChainID},
			TrustOptions:    cmtlight.TrustOptions{Period: 100 * 365 * 24 * time.Hour, Height: fx.lb2.Height, Hash: fx.lb2.Hash()},
			DataDir:         dir,
		})
		if err != nil {
			ev.Infra(t, "light client: %v", err)
		}
		script := &backwardsScript{fx: fx, strategy: strategy, calls: map[int64]int{}}
		lc.SetPeersForVerif(backwardsRPC{script}, fakePeers{ids: []core.PeerID{"peer-0", "peer-1", "peer-2"}})
		c := stateless.NewCore(deadProvider{}, lc, stateless.Config{})
		x := fx.lb.Height
		rounds := 1
		if twice {
			rounds = 2
		}
		for round := 0; round < rounds; round++ {
			var got *cmttypes.LightBlock
			var gerr error
			switch getter {
			case "GetLightBlock":
				var lb *consensus.LightBlock
				if lb, gerr = c.GetLightBlock(ctx, x); gerr == nil {
					if lb.Height != x {
						ev.Violation(t, "lightblock-other-height", "%s: asked for %d, answer says %d", cur, x, lb.Height)
					}
					if got, gerr = light.DecodeLightBlock(lb); gerr != nil {
						ev.Violation(t, "lightblock-undecodable", "%s: returned light block does not decode: %v", cur, gerr)
					}
				}
			case "GetValidators":
				// (the core takes the validator set from the verified light block)
				var v *consensus.Validators
				if v, gerr = c.GetValidators(ctx, x); gerr == nil && v.Height != x {
					ev.Violation(t, "lightblock-other-height", "%s: asked for %d, validators of %d", cur, x, v.Height)
				}
				if gerr == nil {
					got, gerr = lc.VerifyLightBlockAt(ctx, x) // what the answer was taken from (now in the trusted store)
				}
			default:
				got, gerr = lc.VerifyLightBlockAt(ctx, x)
			}
			rec.Label(fmt.Sprintf("%s:%s:round%d:returned=%v", strategy, getter, round, gerr == nil))
			if errors.Is(gerr, context.DeadlineExceeded) {
				rec.Discard("timeout")
				return
			}
			if gerr != nil {
				if strategy == "honest" && getter != "GetValidators" {
					ev.Violation(t, "honest-lightblock-rejected", "%s: honest peers, genuine historical block rejected: %v", cur, gerr)
				}
				continue
			}
			if got.Height != x {
				ev.Violation(t, "lightblock-other-height", "%s: asked for %d, was handed (verified) data of height %d", cur, x, got.Height)
			}
			if string(got.Hash()) != string(fx.lb.Hash()) || string(got.Hash()) != string(fx.lb2.LastBlockID.Hash) {
				sig := "lightblock-wrong-header"
				if (strategy == "forged-first" || strategy == "forged-always" || strategy == "forged-by-primary") && string(got.Hash()) == string(forgedHeader(fx.lb).Hash()) {
					sig = SigBackwardsTarget
				}
				ev.Violation(t, sig, "%s: the header handed out for historical height %d (%X) is not the one the trusted header %d names as its predecessor (%X)", cur, x, got.Hash(), fx.lb2.Height, fx.lb2.LastBlockID.Hash)
			}
			if got.ValidatorSet == nil || string(got.ValidatorSet.Hash()) != string(got.Header.ValidatorsHash) {
				ev.Violation(t, "unbound-validator-set", "%s: the validator set handed out for historical height %d does not hash to the verified header's ValidatorsHash", cur, x)
			}
		}
		rec.Case(strategy != "honest", ev.Fingerprint(strategy, getter, twice), cur)
	}
	if probe {
		one(t, "forged-first", "VerifyLightBlockAt", false)
		return
	}
	rapid.Check(t, func(t *rapid.T) {
		var strategies []string
		for _, s := range backwardsStrategies {
			if len(s) >= 6 && s[:6] == "forged" && excluded(SigBackwardsTarget, false) {
				continue // known finding: the forged target header is accepted (probe TestC19KFBackwardsTarget)
			}
			strategies = append(strategies, s)
		}
		strategy := rapid.SampledFrom(strategies).Draw(t, "strategy")
		getter := rapid.SampledFrom([]string{"GetLightBlock", "GetValidators", "VerifyLightBlockAt"}).Draw(t, "getter")
		one(t, strategy, getter, rapid.Bool().Draw(t, "twice"))
	})
}
