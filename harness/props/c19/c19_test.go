// Package c19 decides property C19 (stateless nodes return provider data only if it is bound to a
// light-client verified header) on the pure verification functions of the stateless consensus
// backend, exported through the verif-tagged hook go/consensus/cometbft/stateless/export_verif.go.
//
// The provider is the adversary: every test takes an honest answer (recorded on mainnet, or
// synthesized with the node's own converters), alters it, and demands "rejected OR semantically
// identical to the honest answer under a decode written here, independent of the code under test".
package c19

import (
	"bytes"
	"crypto/sha256"
	"encoding/binary"
	"encoding/hex"
	"encoding/json"
	"fmt"
	"os"
	"path/filepath"
	"sort"
	"strconv"
	"strings"
	"sync"
	"testing"
	"time"

	abci "github.com/cometbft/cometbft/abci/types"
	cmted25519 "github.com/cometbft/cometbft/crypto/ed25519"
	cmtcryptoenc "github.com/cometbft/cometbft/crypto/encoding"
	cmtproto "github.com/cometbft/cometbft/proto/tendermint/types"
	cmtversion "github.com/cometbft/cometbft/proto/tendermint/version"
	cmtcoretypes "github.com/cometbft/cometbft/rpc/core/types"
	cmttypes "github.com/cometbft/cometbft/types"
	fxcbor "github.com/fxamacker/cbor/v2"
	"pgregory.net/rapid"

	"github.com/oasisprotocol/oasis-core/go/common/cbor"
	"github.com/oasisprotocol/oasis-core/go/common/crypto/hash"
	"github.com/oasisprotocol/oasis-core/go/common/crypto/signature"
	"github.com/oasisprotocol/oasis-core/go/common/crypto/signature/signers/memory"
	consensus "github.com/oasisprotocol/oasis-core/go/consensus/api"
	"github.com/oasisprotocol/oasis-core/go/consensus/api/transaction"
	cmtapi "github.com/oasisprotocol/oasis-core/go/consensus/cometbft/api"
	cmtcrypto "github.com/oasisprotocol/oasis-core/go/consensus/cometbft/crypto"
	"github.com/oasisprotocol/oasis-core/go/consensus/cometbft/crypto/merkle"
	"github.com/oasisprotocol/oasis-core/go/consensus/cometbft/light"
	"github.com/oasisprotocol/oasis-core/go/consensus/cometbft/stateless"
	mkvsNode "github.com/oasisprotocol/oasis-core/go/storage/mkvs/node"

	"verifharness/ev"
)

// ------------------------------------------------------------------------------------------
// common helpers
// ------------------------------------------------------------------------------------------

func repoDir() string {
	if v := os.Getenv("VERIF_REPO"); v != "" {
		return v
	}
	return "/repo"
}

// excluded reports whether a finding signature is excluded from this run.
//
// Generators (probe=false) skip mutants of a class listed in VERIF_EXCLUDE (set by the driver from
// known_findings.json, status "known") or in VERIF_EXCLUDE_EXTRA (the same list set by hand; the
// driver overwrites VERIF_EXCLUDE but passes every other variable through), so that the search
// continues behind a known finding.
//
// The deterministic single-field tests (probe=true) are the probes of the known findings: they
// keep reporting a class listed in VERIF_EXCLUDE - the driver turns that into a KNOWN-FINDING
// line - and are silenced only by VERIF_EXCLUDE_EXTRA.
func excluded(sig string, probe bool) bool {
	if !probe && ev.Excluded(sig) {
		return true
	}
	for _, s := range strings.Split(os.Getenv("VERIF_EXCLUDE_EXTRA"), ",") {
		if s == sig && s != "" {
			return true
		}
	}
	return false
}

// declaredUnbound lists the answer fields the code under test itself declares unverifiable at the
// place where it verifies the answer. A mutant that differs from the honest answer only in these
// is counted with the label unbound_declared:<class> and is not a violation.
var declaredUnbound = map[string]string{
	"size":                      `core.go verifyBlock: "Block size cannot be verified."`,
	"results-tx-events":         `core.go verifyBlockResults: "TODO: Verify events once we extend provable events in the system block metadata transaction (#6210)."`,
	"results-beginblock-events": `core.go verifyBlockResults: same TODO (#6210)`,
	"results-endblock-events":   `core.go verifyBlockResults: same TODO (#6210)`,
}

// prng expands one drawn 64-bit seed into the opaque byte strings of a case (hashes, signatures,
// addresses). It is a pure function of the drawn seed.
type prng struct {
	seed [8]byte
	ctr  uint64
}

func newPrng(seed uint64) *prng {
	p := &prng{}
	binary.LittleEndian.PutUint64(p.seed[:], seed)
	return p
}

func (p *prng) bytes(n int) []byte {
	out := make([]byte, 0, n+32)
	for len(out) < n {
		var c [8]byte
		binary.LittleEndian.PutUint64(c[:], p.ctr)
		p.ctr++
		h := sha256.Sum256(append(append([]byte("c19"), p.seed[:]...), c[:]...))
		out = append(out, h[:]...)
	}
	return out[:n]
}

func (p *prng) intn(n int) int {
	return int(binary.LittleEndian.Uint64(p.bytes(8)) % uint64(n))
}

func clone(b []byte) []byte { return append([]byte(nil), b...) }

// pickUniform chooses one of n alternatives uniformly. rapid's integer generators are biased
// towards small values on purpose; for the choice of a mutation operator that bias would starve
// most operators, so the drawn number is hashed first (still a pure function of the draw).
func pickUniform(t *rapid.T, label string, n int) int {
	return newPrng(rapid.Uint64().Draw(t, label)).intn(n)
}

func pickString(t *rapid.T, label string, xs []string) string {
	return xs[pickUniform(t, label, len(xs))]
}

func short(b []byte) string {
	if len(b) <= 24 {
		return hex.EncodeToString(b)
	}
	return hex.EncodeToString(b[:12]) + ".." + hex.EncodeToString(b[len(b)-8:]) + fmt.Sprintf("(%dB)", len(b))
}

// lenient is the decoder of the independent oracle: plain fxamacker/cbor with default (permissive)
// options, i.e. anything the node's strict decoder accepts decodes here as well.
var lenient fxcbor.DecMode

func init() {
	var err error
	lenient, err = fxcbor.DecOptions{MaxArrayElements: 1 << 24, MaxMapPairs: 1 << 24}.DecMode()
	if err != nil {
		panic(err)
	}
}

// ---- raw CBOR / protobuf writers used to produce non-canonical but equivalent encodings

// cborHead writes a CBOR head; width 0 = shortest form, 1/2/4/8 = forced argument width.
func cborHead(major byte, n uint64, width int) []byte {
	m := major << 5
	if width == 0 {
		switch {
		case n < 24:
			return []byte{m | byte(n)}
		case n < 1<<8:
			width = 1
		case n < 1<<16:
			width = 2
		case n < 1<<32:
			width = 4
		default:
			width = 8
		}
	}
	switch width {
	case 1:
		return []byte{m | 24, byte(n)}
	case 2:
		return []byte{m | 25, byte(n >> 8), byte(n)}
	case 4:
		return []byte{m | 26, byte(n >> 24), byte(n >> 16), byte(n >> 8), byte(n)}
	default:
		var b [8]byte
		binary.BigEndian.PutUint64(b[:], n)
		return append([]byte{m | 27}, b[:]...)
	}
}

func cborBstr(b []byte, width int) []byte { return append(cborHead(2, uint64(len(b)), width), b...) }
func cborTstr(s string, width int) []byte { return append(cborHead(3, uint64(len(s)), width), s...) }

func pbVarint(v uint64, pad int) []byte {
	var out []byte
	for v >= 0x80 {
		out = append(out, byte(v)|0x80)
		v >>= 7
	}
	out = append(out, byte(v))
	for i := 0; i < pad; i++ { // non-minimal: same value, more bytes
		out[len(out)-1] |= 0x80
		out = append(out, 0)
	}
	return out
}

func pbVarintField(field int, v uint64, pad int) []byte {
	return append(pbVarint(uint64(field)<<3, 0), pbVarint(v, pad)...)
}

func pbBytesField(field int, b []byte) []byte {
	out := append(pbVarint(uint64(field)<<3|2, 0), pbVarint(uint64(len(b)), 0)...)
	return append(out, b...)
}

// ------------------------------------------------------------------------------------------
// fixtures
// ------------------------------------------------------------------------------------------

type fixtures struct {
	blk     *consensus.Block
	lb, lb2 *cmttypes.LightBlock
	txs     [][]byte
	results *consensus.BlockResults
}

var (
	fxOnce sync.Once
	fxVal  *fixtures
	fxErr  error
)

func loadFixtures() (*fixtures, error) {
	fxOnce.Do(func() {
		dir := filepath.Join(repoDir(), "go", "consensus", "cometbft", "stateless", "testdata")
		load := func(name string, dst any) {
			if fxErr != nil {
				return
			}
			data, err := os.ReadFile(filepath.Join(dir, name))
			if err != nil {
				fxErr = err
				return
			}
			if err = json.Unmarshal(data, dst); err != nil {
				fxErr = fmt.Errorf("%s: %w", name, err)
			}
		}
		f := &fixtures{blk: &consensus.Block{}, results: &consensus.BlockResults{}}
		var clb, clb2 consensus.LightBlock
		load("block_25300000.json", f.blk)
		load("light_block_25300000.json", &clb)
		load("light_block_25300001.json", &clb2)
		load("results_25300000.json", f.results)
		load("txs_25300000.json", &f.txs)
		if fxErr != nil {
			return
		}
		if f.lb, fxErr = light.DecodeLightBlock(&clb); fxErr != nil {
			return
		}
		if f.lb2, fxErr = light.DecodeLightBlock(&clb2); fxErr != nil {
			return
		}
		fxVal = f
	})
	return fxVal, fxErr
}

// ------------------------------------------------------------------------------------------
// (a) blocks: honest pairs, independent decode, mutation operators
// ------------------------------------------------------------------------------------------

// metaView is the test's own view of the CBOR block metadata.
type metaView struct {
	Header     []byte `cbor:"header"`
	LastCommit []byte `cbor:"last_commit"`
}

func decodeCommit(b []byte) (*cmttypes.Commit, error) {
	var pc cmtproto.Commit
	if err := pc.Unmarshal(b); err != nil {
		return nil, err
	}
	return cmttypes.CommitFromProto(&pc)
}

// pair is an honest provider answer together with the verified light block it belongs to.
type pair struct {
	name    string
	blk     *consensus.Block
	lb      *cmttypes.LightBlock
	hdr, lc []byte
	commit  *cmttypes.Commit
}

func newPair(name string, blk *consensus.Block, lb *cmttypes.LightBlock) (*pair, error) {
	var mv metaView
	if err := lenient.Unmarshal(blk.Meta, &mv); err != nil {
		return nil, fmt.Errorf("honest meta does not decode: %w", err)
	}
	c, err := decodeCommit(mv.LastCommit)
	if err != nil {
		return nil, fmt.Errorf("honest last commit does not decode: %w", err)
	}
	return &pair{name: name, blk: blk, lb: lb, hdr: mv.Header, lc: mv.LastCommit, commit: c}, nil
}

type blockDiff struct {
	decodable bool     // the mutant decodes structurally under the independent decoder
	why       string   // why it does not
	classes   []string // field classes in which the mutant differs from the honest answer (fixed order)
	reenc     []string // byte-level differences without a semantic difference
	detail    string   // first semantic difference, human-readable
}

func (d *blockDiff) add(class, format string, args ...any) {
	for _, c := range d.classes {
		if c == class {
			return
		}
	}
	d.classes = append(d.classes, class)
	if d.detail == "" {
		d.detail = class + ": " + fmt.Sprintf(format, args...)
	}
}

// diffBlock is the independent oracle: it decodes the mutant answer without any code of the
// stateless package and lists the field classes in which it differs from the honest answer.
func diffBlock(p *pair, m *consensus.Block) blockDiff {
	h := p.blk
	d := blockDiff{decodable: true}
	if m.Height != h.Height {
		d.add("height", "%d -> %d", h.Height, m.Height)
	}
	if m.Hash != h.Hash {
		d.add("hash", "%s -> %s", h.Hash, m.Hash)
	}
	if !m.Time.Equal(h.Time) {
		d.add("time", "%s -> %s", h.Time.UTC().Format(time.RFC3339Nano), m.Time.UTC().Format(time.RFC3339Nano))
	} else if m.Time != h.Time {
		d.reenc = append(d.reenc, "time-location")
	}
	if m.StateRoot.Namespace != h.StateRoot.Namespace {
		d.add("stateroot-namespace", "%s -> %s", h.StateRoot.Namespace, m.StateRoot.Namespace)
	}
	if m.StateRoot.Version != h.StateRoot.Version {
		d.add("stateroot-version", "%d -> %d", h.StateRoot.Version, m.StateRoot.Version)
	}
	if m.StateRoot.Type != h.StateRoot.Type {
		d.add("stateroot-type", "%d -> %d", h.StateRoot.Type, m.StateRoot.Type)
	}
	if m.StateRoot.Hash != h.StateRoot.Hash {
		d.add("stateroot-hash", "%s -> %s", h.StateRoot.Hash, m.StateRoot.Hash)
	}
	if m.Size != h.Size {
		d.add("size", "%d -> %d", h.Size, m.Size)
	}
	if bytes.Equal(m.Meta, h.Meta) && (m.Meta == nil) == (h.Meta == nil) {
		return d
	}
	var mv metaView
	if m.Meta == nil {
		// The node's decoder treats a nil message as "nothing to decode": both fields stay empty.
		mv = metaView{}
	} else if err := lenient.Unmarshal(m.Meta, &mv); err != nil {
		d.decodable, d.why = false, "cbor: "+err.Error()
		return d
	}
	if !bytes.Equal(mv.Header, p.hdr) {
		d.add("meta-header", "%s -> %s", short(p.hdr), short(mv.Header))
	}
	c, err := decodeCommit(mv.LastCommit)
	if err != nil {
		d.decodable, d.why = false, "last commit: "+err.Error()
		return d
	}
	hc := p.commit
	if c.Height != hc.Height {
		d.add("lastcommit-height", "%d -> %d", hc.Height, c.Height)
	}
	if c.Round != hc.Round {
		d.add("lastcommit-round", "%d -> %d", hc.Round, c.Round)
	}
	if !bytes.Equal(c.BlockID.Hash, hc.BlockID.Hash) || c.BlockID.PartSetHeader.Total != hc.BlockID.PartSetHeader.Total ||
		!bytes.Equal(c.BlockID.PartSetHeader.Hash, hc.BlockID.PartSetHeader.Hash) {
		d.add("lastcommit-blockid", "%s -> %s", hc.BlockID, c.BlockID)
	}
	if len(c.Signatures) != len(hc.Signatures) {
		d.add("lastcommit-sigcount", "%d -> %d", len(hc.Signatures), len(c.Signatures))
	} else {
		for i := range c.Signatures {
			a, b := hc.Signatures[i], c.Signatures[i]
			if a.BlockIDFlag != b.BlockIDFlag {
				d.add("lastcommit-sig-flag", "sig %d: %d -> %d", i, a.BlockIDFlag, b.BlockIDFlag)
			}
			if !bytes.Equal(a.ValidatorAddress, b.ValidatorAddress) {
				d.add("lastcommit-sig-address", "sig %d: %X -> %X", i, []byte(a.ValidatorAddress), []byte(b.ValidatorAddress))
			}
			if !a.Timestamp.Equal(b.Timestamp) {
				d.add("lastcommit-sig-timestamp", "sig %d: %s -> %s", i, a.Timestamp.UTC().Format(time.RFC3339Nano), b.Timestamp.UTC().Format(time.RFC3339Nano))
			}
			if !bytes.Equal(a.Signature, b.Signature) {
				d.add("lastcommit-sig-signature", "sig %d: %s -> %s", i, short(a.Signature), short(b.Signature))
			}
		}
	}
	if !bytes.Equal(mv.LastCommit, p.lc) {
		d.reenc = append(d.reenc, "reencoded-lastcommit-proto")
	} else if bytes.Equal(mv.Header, p.hdr) {
		d.reenc = append(d.reenc, "reencoded-cbor")
	}
	return d
}

// ---- synthesized pairs

var chainIDs = []string{"oasis-4", "c19-test-chain-0123456789-0123456789-0123456789-01", "x"}

type synth struct {
	*pair
	block *cmttypes.Block
}

// genCommit draws a last commit for height h (votes on block h-1 with the given id).
func genCommit(t *rapid.T, r *prng, label string, h int64, id cmttypes.BlockID, sec int64) *cmttypes.Commit {
	if h <= 1 {
		return &cmttypes.Commit{}
	}
	n := rapid.SampledFrom([]int{1, 1, 2, 3, 4, 7, 20}).Draw(t, label+"nsigs")
	c := &cmttypes.Commit{Height: h - 1, Round: int32(rapid.SampledFrom([]int{0, 0, 0, 1, 2, 7}).Draw(t, label+"round")), BlockID: id}
	for i := 0; i < n; i++ {
		flag := cmttypes.BlockIDFlag(rapid.SampledFrom([]int{1, 2, 2, 2, 3}).Draw(t, label+"flag"))
		s := cmttypes.CommitSig{BlockIDFlag: flag}
		if flag != cmttypes.BlockIDFlagAbsent {
			s.ValidatorAddress = r.bytes(20)
			s.Timestamp = time.Unix(sec-int64(r.intn(5)), int64(r.intn(1_000_000_000))).UTC()
			s.Signature = r.bytes(64)
		}
		c.Signatures = append(c.Signatures, s)
	}
	return c
}

// genSynth builds an honest block with the given transactions, converts it with the node's own
// api.NewBlock (what an honest provider serves) and builds the light block a light client would
// have verified for it (header taken through its protobuf form, as on the wire).
func genSynth(t *rapid.T, label string, height int64, txs [][]byte, proposer []byte) *synth {
	seed := rapid.Uint64().Draw(t, label+"seed")
	r := newPrng(seed)
	h := height
	if h == 0 {
		h = rapid.SampledFrom([]int64{1, 2, 3, 100, 25300000, 25300001, 1 << 40}).Draw(t, label+"height")
	}
	sec := int64(1_600_000_000 + r.intn(300_000_000))
	nanos := rapid.SampledFrom([]int64{0, 1, 500_000_000, 999_999_999, -1}).Draw(t, label+"nanos")
	if nanos < 0 {
		nanos = int64(r.intn(1_000_000_000))
	}
	var lastID cmttypes.BlockID
	if h > 1 {
		lastID = cmttypes.BlockID{Hash: r.bytes(32), PartSetHeader: cmttypes.PartSetHeader{Total: uint32(1 + r.intn(3)), Hash: r.bytes(32)}}
	}
	commit := genCommit(t, r, label, h, lastID, sec)
	data := cmttypes.Data{}
	for _, tx := range txs {
		data.Txs = append(data.Txs, tx)
	}
	if proposer == nil {
		proposer = r.bytes(20)
	}
	blk := &cmttypes.Block{
		Header: cmttypes.Header{
			Version:            cmtversion.Consensus{Block: 11, App: uint64(r.intn(4))},
			ChainID:            chainIDs[r.intn(len(chainIDs))],
			Height:             h,
			Time:               time.Unix(sec, nanos).UTC(),
			LastBlockID:        lastID,
			LastCommitHash:     commit.Hash(),
			DataHash:           data.Hash(),
			ValidatorsHash:     r.bytes(32),
			NextValidatorsHash: r.bytes(32),
			ConsensusHash:      r.bytes(32),
			AppHash:            r.bytes(32),
			LastResultsHash:    r.bytes(32),
			EvidenceHash:       r.bytes(32),
			ProposerAddress:    proposer,
		},
		Data:       data,
		LastCommit: commit,
	}
	cblk, err := cmtapi.NewBlock(blk)
	if err != nil {
		ev.Infra(t, "api.NewBlock failed on a synthesized block: %v", err)
	}
	hdr, err := cmttypes.HeaderFromProto(blk.Header.ToProto())
	if err != nil {
		ev.Infra(t, "header round trip failed: %v", err)
	}
	lb := &cmttypes.LightBlock{SignedHeader: &cmttypes.SignedHeader{Header: &hdr, Commit: &cmttypes.Commit{Height: h}}}
	p, err := newPair(fmt.Sprintf("synth(h=%d,seed=%d,sigs=%d)", h, seed, len(commit.Signatures)), cblk, lb)
	if err != nil {
		ev.Infra(t, "synthesized pair: %v", err)
	}
	return &synth{pair: p, block: blk}
}

// ---- mutation operators on the provider's block answer

type bctx struct {
	t      *rapid.T
	p      *pair
	other  *pair
	m      *consensus.Block
	detail string
}

func (c *bctx) intn(label string, n int) int { return rapid.IntRange(0, n-1).Draw(c.t, label) }
func (c *bctx) pick(label string, n int) int { return pickUniform(c.t, label, n) }
func (c *bctx) xor(label string) byte        { return byte(rapid.IntRange(1, 255).Draw(c.t, label)) }
func (c *bctx) bit(label string) byte        { return 1 << uint(rapid.IntRange(0, 7).Draw(c.t, label)) }
func (c *bctx) setMeta(hdr, lc []byte) {
	c.m.Meta = cbor.Marshal(cmtapi.BlockMeta{Header: hdr, LastCommit: lc})
}

func (c *bctx) lcProto() *cmtproto.Commit {
	var pc cmtproto.Commit
	if err := pc.Unmarshal(c.p.lc); err != nil {
		ev.Infra(c.t, "honest last commit: %v", err)
	}
	return &pc
}

func (c *bctx) setLC(pc *cmtproto.Commit) {
	b, err := pc.Marshal()
	if err != nil {
		ev.Infra(c.t, "marshal mutated commit: %v", err)
	}
	c.setMeta(c.p.hdr, b)
}

func (c *bctx) sigIndex(pc *cmtproto.Commit) (int, bool) {
	if len(pc.Signatures) == 0 {
		return 0, false
	}
	return c.intn("sig", len(pc.Signatures)), true
}

// rawMap writes the metadata map with explicit control over order, widths and extra entries.
type rawEntry struct {
	key string
	val []byte // raw CBOR item
}

func rawMap(entries []rawEntry, headWidth, keyWidth int) []byte {
	out := cborHead(5, uint64(len(entries)), headWidth)
	for _, e := range entries {
		out = append(out, cborTstr(e.key, keyWidth)...)
		out = append(out, e.val...)
	}
	return out
}

type blockOp struct {
	name string
	f    func(c *bctx) bool // false = not applicable to this pair
}

func flipIn(c *bctx, b []byte, lo, hi int, what string) []byte {
	out := clone(b)
	if hi > len(out) {
		hi = len(out)
	}
	if hi <= lo {
		return nil
	}
	pos := lo + c.intn("pos", hi-lo)
	bit := c.bit("bit")
	out[pos] ^= bit
	c.detail = fmt.Sprintf("%s: byte %d of %d ^= 0x%02x", what, pos, len(b), bit)
	return out
}

var (
	blockOps   []blockOp
	blockOpIdx []int // operator indexes, repeated by weight
)

// The operators inside Meta carry most of the weight: that is where a missing comparison hides.
var blockOpWeight = map[string]int{
	"meta-bytes": 5, "hdr-bytes": 2, "hdr-field": 3, "lc-height": 2, "lc-round": 2, "lc-blockid": 3, "lc-sig-field": 5, "lc-sig-list": 4, "lc-wire": 6,
	"meta-nonminimal": 2, "other-block": 2,
}

func init() {
	defer func() {
		for i, op := range blockOps {
			w := blockOpWeight[op.name]
			if w == 0 {
				w = 1
			}
			for k := 0; k < w; k++ {
				blockOpIdx = append(blockOpIdx, i)
			}
		}
	}()
	blockOps = []blockOp{
		// ---- fields of consensus.Block
		{"height", func(c *bctx) bool {
			h := c.p.blk.Height
			v := rapid.SampledFrom([]int64{h + 1, h - 1, 0, -h, c.other.blk.Height, h + 1<<32, h ^ 1<<62}).Draw(c.t, "v")
			c.m.Height = v
			c.detail = fmt.Sprintf("Height %d -> %d", h, v)
			return v != h
		}},
		{"hash", func(c *bctx) bool {
			switch c.pick("mode", 3) {
			case 0:
				i := c.intn("i", 32)
				c.m.Hash[i] ^= c.bit("bit")
			case 1:
				c.m.Hash = hash.Hash{}
			default:
				c.m.Hash = c.other.blk.Hash
			}
			c.detail = fmt.Sprintf("Hash %s -> %s", c.p.blk.Hash, c.m.Hash)
			return c.m.Hash != c.p.blk.Hash
		}},
		{"time", func(c *bctx) bool {
			ds := []time.Duration{time.Second, -time.Second, 1, -1, 999_999_999, time.Hour, -24 * time.Hour}
			k := c.intn("k", len(ds)+2)
			switch {
			case k < len(ds):
				c.m.Time = c.p.blk.Time.Add(ds[k])
			case k == len(ds):
				c.m.Time = c.p.lb.Header.Time // untruncated header time
			default:
				c.m.Time = time.Time{}
			}
			c.detail = fmt.Sprintf("Time %s -> %s", c.p.blk.Time.Format(time.RFC3339Nano), c.m.Time.Format(time.RFC3339Nano))
			return c.m.Time != c.p.blk.Time
		}},
		{"time-location", func(c *bctx) bool {
			off := rapid.SampledFrom([]int{0, 3600, -7200, 19800, 1}).Draw(c.t, "off")
			if off == 0 {
				c.m.Time = c.p.blk.Time.UTC()
			} else {
				c.m.Time = c.p.blk.Time.In(time.FixedZone("z", off))
			}
			c.detail = fmt.Sprintf("Time location -> %s (same instant)", c.m.Time.Format(time.RFC3339Nano))
			return c.m.Time != c.p.blk.Time
		}},
		{"sr-namespace", func(c *bctx) bool {
			i := c.intn("i", len(c.m.StateRoot.Namespace))
			c.m.StateRoot.Namespace[i] ^= c.xor("x")
			c.detail = fmt.Sprintf("StateRoot.Namespace -> %s", c.m.StateRoot.Namespace)
			return true
		}},
		{"sr-version", func(c *bctx) bool {
			v := c.p.blk.StateRoot.Version
			n := rapid.SampledFrom([]uint64{v + 1, v - 1, 0, uint64(c.p.blk.Height), ^uint64(0), v ^ 1<<40}).Draw(c.t, "v")
			c.m.StateRoot.Version = n
			c.detail = fmt.Sprintf("StateRoot.Version %d -> %d", v, n)
			return n != v
		}},
		{"sr-type", func(c *bctx) bool {
			n := mkvsNode.RootType(rapid.SampledFrom([]int{0, 2, 3, 255}).Draw(c.t, "v"))
			c.m.StateRoot.Type = n
			c.detail = fmt.Sprintf("StateRoot.Type %d -> %d", c.p.blk.StateRoot.Type, n)
			return n != c.p.blk.StateRoot.Type
		}},
		{"sr-hash", func(c *bctx) bool {
			switch c.pick("mode", 3) {
			case 0:
				c.m.StateRoot.Hash[c.intn("i", 32)] ^= c.bit("bit")
			case 1:
				c.m.StateRoot.Hash = hash.Hash{}
			default:
				c.m.StateRoot.Hash = c.other.blk.StateRoot.Hash
			}
			c.detail = fmt.Sprintf("StateRoot.Hash -> %s", c.m.StateRoot.Hash)
			return c.m.StateRoot.Hash != c.p.blk.StateRoot.Hash
		}},
		{"size", func(c *bctx) bool {
			s := c.p.blk.Size
			n := rapid.SampledFrom([]uint64{s + 1, s - 1, 0, 1, ^uint64(0)}).Draw(c.t, "v")
			c.m.Size = n
			c.detail = fmt.Sprintf("Size %d -> %d", s, n)
			return n != s
		}},

		// ---- Block.Meta at the CBOR level
		{"meta-nil", func(c *bctx) bool { c.m.Meta = nil; c.detail = "Meta = nil"; return true }},
		{"meta-empty", func(c *bctx) bool { c.m.Meta = cbor.RawMessage{}; c.detail = "Meta = empty"; return true }},
		{"meta-truncate", func(c *bctx) bool {
			k := 1 + c.intn("k", len(c.p.blk.Meta)-1)
			c.m.Meta = clone(c.p.blk.Meta[:len(c.p.blk.Meta)-k])
			c.detail = fmt.Sprintf("Meta truncated by %d bytes", k)
			return true
		}},
		{"meta-trailing", func(c *bctx) bool {
			extra := [][]byte{{0}, {0xf6}, {0xa0}, {0xff}}[c.intn("k", 4)]
			c.m.Meta = append(clone(c.p.blk.Meta), extra...)
			c.detail = fmt.Sprintf("Meta + trailing %x", extra)
			return true
		}},
		{"meta-keyorder", func(c *bctx) bool {
			c.m.Meta = rawMap([]rawEntry{{"last_commit", cborBstr(c.p.lc, 0)}, {"header", cborBstr(c.p.hdr, 0)}}, 0, 0)
			c.detail = "Meta re-encoded with map keys in non-canonical order"
			return true
		}},
		{"meta-nonminimal", func(c *bctx) bool {
			ws := []int{0, 1, 2, 4, 8}
			w := func(l string, min int) int {
				for {
					x := ws[c.intn(l, len(ws))]
					if x == 0 || x >= min {
						return x
					}
				}
			}
			need := func(n int) int {
				switch {
				case n < 1<<8:
					return 1
				case n < 1<<16:
					return 2
				default:
					return 4
				}
			}
			hw, kw, w1, w2 := w("hw", 1), w("kw", 1), w("w1", need(len(c.p.hdr))), w("w2", need(len(c.p.lc)))
			c.m.Meta = rawMap([]rawEntry{{"header", cborBstr(c.p.hdr, w1)}, {"last_commit", cborBstr(c.p.lc, w2)}}, hw, kw)
			c.detail = fmt.Sprintf("Meta re-encoded with non-shortest length encodings (map %d, keys %d, header %d, last_commit %d)", hw, kw, w1, w2)
			return !bytes.Equal(c.m.Meta, c.p.blk.Meta)
		}},
		{"meta-unknown-key", func(c *bctx) bool {
			c.m.Meta = rawMap([]rawEntry{{"header", cborBstr(c.p.hdr, 0)}, {"last_commit", cborBstr(c.p.lc, 0)}, {"x", []byte{0}}}, 0, 0)
			c.detail = "Meta with an extra unknown map key"
			return true
		}},
		{"meta-dup-key", func(c *bctx) bool {
			first, second := c.p.hdr, c.other.hdr
			if c.pick("which", 2) == 0 {
				first, second = second, first
			}
			c.m.Meta = rawMap([]rawEntry{{"header", cborBstr(first, 0)}, {"header", cborBstr(second, 0)}, {"last_commit", cborBstr(c.p.lc, 0)}}, 0, 0)
			c.detail = "Meta with a duplicated header key (one honest, one foreign)"
			return true
		}},
		{"meta-indef", func(c *bctx) bool {
			if c.pick("mode", 2) == 0 {
				b := []byte{0xbf}
				b = append(b, cborTstr("header", 0)...)
				b = append(b, cborBstr(c.p.hdr, 0)...)
				b = append(b, cborTstr("last_commit", 0)...)
				b = append(b, cborBstr(c.p.lc, 0)...)
				c.m.Meta = append(b, 0xff)
				c.detail = "Meta as indefinite-length map"
			} else {
				k := len(c.p.hdr) / 2
				chunked := append([]byte{0x5f}, cborBstr(c.p.hdr[:k], 0)...)
				chunked = append(append(chunked, cborBstr(c.p.hdr[k:], 0)...), 0xff)
				c.m.Meta = rawMap([]rawEntry{{"header", chunked}, {"last_commit", cborBstr(c.p.lc, 0)}}, 0, 0)
				c.detail = "Meta with the header as indefinite-length (chunked) byte string"
			}
			return true
		}},
		{"meta-tag", func(c *bctx) bool {
			if c.pick("mode", 2) == 0 {
				c.m.Meta = append([]byte{0xd9, 0xd9, 0xf7}, c.p.blk.Meta...)
				c.detail = "Meta wrapped in the self-describe CBOR tag"
			} else {
				c.m.Meta = rawMap([]rawEntry{{"header", append([]byte{0xd8, 0x40}, cborBstr(c.p.hdr, 0)...)}, {"last_commit", cborBstr(c.p.lc, 0)}}, 0, 0)
				c.detail = "Meta with a tagged header byte string"
			}
			return true
		}},
		{"meta-shape", func(c *bctx) bool {
			switch c.pick("mode", 3) {
			case 0:
				c.m.Meta = append(cborHead(4, 2, 0), append(cborBstr(c.p.hdr, 0), cborBstr(c.p.lc, 0)...)...)
				c.detail = "Meta as array [header, last_commit]"
			case 1:
				c.m.Meta = rawMap([]rawEntry{{"header", append(cborHead(3, uint64(len(c.p.hdr)), 0), c.p.hdr...)}, {"last_commit", cborBstr(c.p.lc, 0)}}, 0, 0)
				c.detail = "Meta with the header as text string"
			default:
				c.m.Meta = rawMap([]rawEntry{{"header", []byte{0xf6}}, {"last_commit", cborBstr(c.p.lc, 0)}}, 0, 0)
				c.detail = "Meta with header = null"
			}
			return true
		}},
		{"meta-swap-fields", func(c *bctx) bool { c.setMeta(c.p.lc, c.p.hdr); c.detail = "Meta header <-> last_commit"; return true }},
		{"meta-header-other", func(c *bctx) bool {
			switch c.pick("mode", 2) {
			case 0:
				c.setMeta(c.other.hdr, c.p.lc)
				c.detail = "Meta.header = header of another block"
			default:
				c.setMeta(nil, c.p.lc)
				c.detail = "Meta.header = empty"
			}
			return true
		}},
		{"meta-lc-other", func(c *bctx) bool {
			switch c.pick("mode", 2) {
			case 0:
				c.setMeta(c.p.hdr, c.other.lc)
				c.detail = "Meta.last_commit = last commit of another block"
				return !bytes.Equal(c.other.lc, c.p.lc)
			default:
				c.setMeta(c.p.hdr, nil)
				c.detail = "Meta.last_commit = empty"
				return len(c.p.lc) != 0
			}
		}},
		{"meta-bytes", func(c *bctx) bool {
			raw := clone(c.p.blk.Meta)
			hOff := bytes.Index(raw, c.p.hdr)
			lOff := len(raw) - len(c.p.lc)
			// regions: CBOR framing, header bytes, head of the last commit (height, round, block id), all
			var lo, hi int
			switch c.pick("region", 5) {
			case 0:
				lo, hi = 0, hOff
			case 1:
				lo, hi = hOff, hOff+len(c.p.hdr)
			case 2:
				lo, hi = hOff+len(c.p.hdr), lOff
			case 3:
				lo, hi = lOff, lOff+130
			default:
				lo, hi = 0, len(raw)
			}
			if hi > len(raw) {
				hi = len(raw)
			}
			if hi <= lo {
				lo, hi = 0, len(raw)
			}
			pos := lo + c.intn("pos", hi-lo)
			switch c.pick("kind", 4) {
			case 0, 1:
				bit := c.bit("bit")
				raw[pos] ^= bit
				c.detail = fmt.Sprintf("Meta byte %d of %d ^= 0x%02x", pos, len(raw), bit)
			case 2:
				v := byte(c.intn("v", 256))
				raw = append(raw[:pos], append([]byte{v}, raw[pos:]...)...)
				c.detail = fmt.Sprintf("Meta: inserted 0x%02x at %d", v, pos)
			default:
				raw = append(raw[:pos], raw[pos+1:]...)
				c.detail = fmt.Sprintf("Meta: deleted byte %d", pos)
			}
			c.m.Meta = raw
			return true
		}},

		// ---- inside the protobuf header bytes
		{"hdr-bytes", func(c *bctx) bool {
			switch c.pick("mode", 4) {
			case 0, 1:
				b := flipIn(c, c.p.hdr, 0, len(c.p.hdr), "Meta.header")
				c.setMeta(b, c.p.lc)
			case 2:
				k := 1 + c.intn("k", 8)
				c.setMeta(c.p.hdr[:len(c.p.hdr)-k], c.p.lc)
				c.detail = fmt.Sprintf("Meta.header truncated by %d", k)
			default:
				c.setMeta(append(clone(c.p.hdr), pbVarintField(100, uint64(c.intn("v", 3)), 0)...), c.p.lc)
				c.detail = "Meta.header + unknown protobuf field 100"
			}
			return true
		}},
		{"hdr-field", func(c *bctx) bool {
			var ph cmtproto.Header
			if err := ph.Unmarshal(c.p.hdr); err != nil {
				ev.Infra(c.t, "honest header: %v", err)
			}
			fl := func(b []byte) []byte {
				o := clone(b)
				if len(o) > 0 {
					o[c.intn("i", len(o))] ^= c.bit("bit")
				}
				return o
			}
			k := c.pick("field", 12)
			switch k {
			case 0:
				ph.Height++
			case 1:
				ph.Time = ph.Time.Add(time.Duration(rapid.SampledFrom([]int64{1, -1, 1e9}).Draw(c.t, "dt")))
			case 2:
				ph.ChainID += "x"
			case 3:
				ph.AppHash = fl(ph.AppHash)
			case 4:
				ph.DataHash = fl(ph.DataHash)
			case 5:
				ph.LastCommitHash = fl(ph.LastCommitHash)
			case 6:
				ph.ProposerAddress = fl(ph.ProposerAddress)
			case 7:
				ph.LastBlockId.Hash = fl(ph.LastBlockId.Hash)
			case 8:
				ph.ValidatorsHash = fl(ph.ValidatorsHash)
			case 9:
				ph.NextValidatorsHash = fl(ph.NextValidatorsHash)
			case 10:
				ph.LastResultsHash = fl(ph.LastResultsHash)
			default:
				ph.Version.App++
			}
			b, err := ph.Marshal()
			if err != nil {
				ev.Infra(c.t, "marshal header: %v", err)
			}
			c.setMeta(b, c.p.lc)
			c.detail = fmt.Sprintf("Meta.header re-marshalled with header field #%d altered", k)
			// A consistent forgery: the provider also adapts the outer fields to the forged header.
			if c.pick("consistent", 2) == 1 {
				if fh, err := cmttypes.HeaderFromProto(&ph); err == nil {
					c.m.Hash = hash.LoadFromHexBytes(fh.Hash())
					c.m.Height = fh.Height
					c.m.Time = fh.Time.Truncate(time.Second)
					c.m.StateRoot.Version = uint64(fh.Height) - 1
					_ = c.m.StateRoot.Hash.UnmarshalBinary(fh.AppHash)
					c.detail += " (outer fields made consistent with the forged header)"
				}
			}
			return !bytes.Equal(b, c.p.hdr)
		}},

		// ---- inside the last commit: one field at a time, re-marshalled canonically
		{"lc-height", func(c *bctx) bool {
			pc := c.lcProto()
			h := pc.Height
			v := rapid.SampledFrom([]int64{h + 1, h - 1, c.p.blk.Height, 1, 0, h + 1<<32, -1}).Draw(c.t, "v")
			pc.Height = v
			c.setLC(pc)
			c.detail = fmt.Sprintf("last commit height %d -> %d", h, v)
			return v != h
		}},
		{"lc-round", func(c *bctx) bool {
			pc := c.lcProto()
			r := pc.Round
			v := rapid.SampledFrom([]int32{r + 1, r - 1, 0, 1, 1 << 30, -1}).Draw(c.t, "v")
			pc.Round = v
			c.setLC(pc)
			c.detail = fmt.Sprintf("last commit round %d -> %d", r, v)
			return v != r
		}},
		{"lc-blockid", func(c *bctx) bool {
			pc := c.lcProto()
			fl := func(b []byte) []byte {
				o := clone(b)
				if len(o) == 0 {
					return bytes.Repeat([]byte{7}, 32)
				}
				o[c.intn("i", len(o))] ^= c.bit("bit")
				return o
			}
			switch c.pick("part", 4) {
			case 0:
				pc.BlockID.Hash = fl(pc.BlockID.Hash)
				c.detail = "last commit block id hash: one bit flipped"
			case 1:
				pc.BlockID.PartSetHeader.Total++
				c.detail = "last commit block id part-set total + 1"
			case 2:
				pc.BlockID.PartSetHeader.Hash = fl(pc.BlockID.PartSetHeader.Hash)
				c.detail = "last commit block id part-set hash: one bit flipped"
			default:
				pc.BlockID = c.other.commit.BlockID.ToProto()
				c.detail = "last commit block id = block id of another block's commit"
			}
			c.setLC(pc)
			return true
		}},
		{"lc-sig-field", func(c *bctx) bool {
			pc := c.lcProto()
			i, ok := c.sigIndex(pc)
			if !ok {
				return false
			}
			s := &pc.Signatures[i]
			switch c.pick("field", 4) {
			case 0:
				old := s.BlockIdFlag
				switch old {
				case cmtproto.BlockIDFlagCommit:
					s.BlockIdFlag = cmtproto.BlockIDFlagNil
				case cmtproto.BlockIDFlagNil:
					s.BlockIdFlag = cmtproto.BlockIDFlagCommit
				default: // absent -> a vote out of thin air
					s.BlockIdFlag = cmtproto.BlockIDFlagCommit
					s.ValidatorAddress = bytes.Repeat([]byte{9}, 20)
					s.Signature = bytes.Repeat([]byte{9}, 64)
					s.Timestamp = c.p.lb.Header.Time
				}
				if old != cmtproto.BlockIDFlagAbsent && c.pick("toabsent", 3) == 0 {
					*s = cmtproto.CommitSig{BlockIdFlag: cmtproto.BlockIDFlagAbsent}
				}
				c.detail = fmt.Sprintf("last commit sig %d: flag %d -> %d", i, old, s.BlockIdFlag)
			case 1:
				if len(s.ValidatorAddress) == 0 {
					return false
				}
				s.ValidatorAddress = clone(s.ValidatorAddress)
				s.ValidatorAddress[c.intn("i", len(s.ValidatorAddress))] ^= c.bit("bit")
				c.detail = fmt.Sprintf("last commit sig %d: validator address bit flipped", i)
			case 2:
				if s.BlockIdFlag == cmtproto.BlockIDFlagAbsent {
					return false
				}
				dt := time.Duration(rapid.SampledFrom([]int64{1, -1, 1e9, -1e9, 1e6}).Draw(c.t, "dt"))
				s.Timestamp = s.Timestamp.Add(dt)
				c.detail = fmt.Sprintf("last commit sig %d: timestamp %+d ns", i, int64(dt))
			default:
				if len(s.Signature) == 0 {
					return false
				}
				switch c.pick("how", 3) {
				case 0:
					s.Signature = clone(s.Signature)
					s.Signature[c.intn("i", len(s.Signature))] ^= c.bit("bit")
				case 1:
					s.Signature = s.Signature[:len(s.Signature)-1]
				default:
					s.Signature = append(clone(s.Signature), 0)
				}
				c.detail = fmt.Sprintf("last commit sig %d: signature bytes altered", i)
			}
			c.setLC(pc)
			return true
		}},
		{"lc-sig-list", func(c *bctx) bool {
			pc := c.lcProto()
			n := len(pc.Signatures)
			switch c.pick("how", 5) {
			case 0:
				i, ok := c.sigIndex(pc)
				if !ok {
					return false
				}
				pc.Signatures = append(pc.Signatures[:i:i], pc.Signatures[i+1:]...)
				c.detail = fmt.Sprintf("last commit: signature %d of %d dropped", i, n)
			case 1:
				i, ok := c.sigIndex(pc)
				if !ok {
					return false
				}
				pc.Signatures = append(pc.Signatures, pc.Signatures[i])
				c.detail = fmt.Sprintf("last commit: signature %d appended again", i)
			case 2:
				if n < 2 {
					return false
				}
				i := c.intn("i", n)
				j := c.intn("j", n)
				if i == j {
					return false
				}
				same, _ := pc.Signatures[i].Marshal()
				other, _ := pc.Signatures[j].Marshal()
				pc.Signatures[i], pc.Signatures[j] = pc.Signatures[j], pc.Signatures[i]
				c.detail = fmt.Sprintf("last commit: signatures %d and %d swapped", i, j)
				if bytes.Equal(same, other) {
					return false
				}
			case 3:
				pc.Signatures = append(pc.Signatures, cmtproto.CommitSig{BlockIdFlag: cmtproto.BlockIDFlagAbsent})
				c.detail = "last commit: an absent signature appended"
			default:
				if n == 0 {
					return false
				}
				pc.Signatures = nil
				c.detail = "last commit: all signatures removed"
			}
			c.setLC(pc)
			return true
		}},

		// ---- inside the last commit at the protobuf wire level
		{"lc-wire", func(c *bctx) bool {
			lc := clone(c.p.lc)
			hc := c.p.commit
			switch c.pick("how", 8) {
			case 0: // a repeated scalar field: the last occurrence wins
				v := uint64(rapid.SampledFrom([]int64{hc.Height + 1, 1, c.p.blk.Height}).Draw(c.t, "v"))
				lc = append(lc, pbVarintField(1, v, 0)...)
				c.detail = fmt.Sprintf("last commit bytes + second height field (=%d)", v)
			case 1:
				v := uint64(rapid.SampledFrom([]int32{hc.Round + 1, 5}).Draw(c.t, "v"))
				lc = append(lc, pbVarintField(2, v, 0)...)
				c.detail = fmt.Sprintf("last commit bytes + second round field (=%d)", v)
			case 2: // a repeated embedded message is merged into the first
				id := cmtproto.BlockID{Hash: bytes.Repeat([]byte{0xab}, 32)}
				b, _ := id.Marshal()
				lc = append(lc, pbBytesField(3, b)...)
				c.detail = "last commit bytes + second block_id field (hash only)"
			case 3:
				lc = append(lc, pbVarintField(15, uint64(c.intn("v", 1000)), 0)...)
				c.detail = "last commit bytes + unknown protobuf field 15"
			case 4: // same height, non-minimal varint
				if hc.Height == 0 || len(lc) == 0 || lc[0] != 0x08 {
					return false
				}
				n := len(pbVarint(uint64(hc.Height), 0))
				pad := 1 + c.intn("pad", 3)
				if n+pad > 10 {
					return false
				}
				lc = append(pbVarintField(1, uint64(hc.Height), pad), lc[1+n:]...)
				c.detail = fmt.Sprintf("last commit height re-encoded as a %d-byte varint (same value)", n+pad)
			case 5: // field order
				if hc.Height == 0 || len(lc) == 0 || lc[0] != 0x08 {
					return false
				}
				n := 1 + len(pbVarint(uint64(hc.Height), 0))
				lc = append(clone(lc[n:]), lc[:n]...)
				c.detail = "last commit bytes with the height field moved to the end"
			case 6:
				s := cmtproto.CommitSig{BlockIdFlag: cmtproto.BlockIDFlagNil, ValidatorAddress: bytes.Repeat([]byte{1}, 20), Timestamp: c.p.lb.Header.Time, Signature: []byte{1}}
				b, _ := s.Marshal()
				lc = append(lc, pbBytesField(4, b)...)
				c.detail = "last commit bytes + one more signature entry"
			default:
				b := flipIn(c, lc, 0, 130, "Meta.last_commit")
				if b == nil {
					return false
				}
				lc = b
			}
			c.setMeta(c.p.hdr, lc)
			return true
		}},

		// ---- a complete honest answer for another block
		{"other-block", func(c *bctx) bool {
			m := *c.other.blk
			m.Meta = clone(c.other.blk.Meta)
			c.detail = "honest answer of " + c.other.name
			if c.pick("adapt", 2) == 1 {
				m.Height = c.p.blk.Height
				m.StateRoot.Version = c.p.blk.StateRoot.Version
				c.detail += " with height fields adapted"
			}
			*c.m = m
			return true
		}},
	}
}

const blockRule = "case = honest provider answer consensus.Block for a verified light block (recorded mainnet pair 25300000, or a block synthesized with generated header/" +
	"last commit (0-20 signatures, all flags, heights 1..2^40) and converted by the node's own api.NewBlock) + 1-2 alterations out of: each Block field (height, hash, time, " +
	"time zone, state-root namespace/version/type/hash, size), Meta at CBOR level (nil, truncated, trailing, key order, non-shortest lengths, unknown/duplicate key, indefinite, " +
	"tags, wrong shapes, swapped/foreign fields, bit/insert/delete by region), inside the protobuf header (bits, truncation, unknown field, every header field re-marshalled, " +
	"also with outer fields made consistent), inside the last commit (height, round, block id parts, per-signature flag/address/timestamp/signature, drop/dup/swap/add " +
	"signatures, wire level: repeated scalar/embedded fields, unknown field, padded varint, field order, bit flips in the first 130 bytes), honest answer of another block; " +
	"oracle = honest answer verifies AND mutant is rejected OR equal to the honest answer under an independent decode (own CBOR view, header bytes, CommitFromProto + " +
	"field-by-field comparison of height, round, block id, every signature); a difference only in Size is unbound_declared; non-trivial = mutant differs from the honest " +
	"bytes and still decodes structurally (reaches the field/hash comparisons); distinct = hash of base pair and mutant answer"

// checkBlockMutant runs the oracle on one mutant. It returns the outcome label and whether the
// mutant was non-trivial; counted=false means the case was excluded by construction.
func checkBlockMutant(t ev.Failer, rec *ev.Recorder, probe bool, p *pair, m *consensus.Block, opLabel, desc string) (outcome string, nontrivial, counted bool) {
	d := diffBlock(p, m)
	if d.decodable && len(d.classes) > 0 {
		// Exclusion by construction: a mutant whose only differences are in classes that are known
		// findings (or declared unverifiable) is not generated.
		nExcl := 0
		rest := 0
		for _, c := range d.classes {
			switch {
			case excluded("unbound-"+c, probe):
				nExcl++
			case declaredUnbound[c] != "":
			default:
				rest++
			}
		}
		if nExcl > 0 && rest == 0 {
			for _, c := range d.classes {
				if excluded("unbound-"+c, probe) {
					rec.Discard("excluded:unbound-" + c)
					break
				}
			}
			return "", false, false
		}
	}
	err := stateless.VerifVerifyBlock(m, p.lb)
	changed := !bytes.Equal(cbor.Marshal(m), cbor.Marshal(p.blk)) || m.Time != p.blk.Time
	if err != nil {
		msg := err.Error()
		if i := strings.Index(msg, ":"); i > 0 {
			msg = msg[:i]
		}
		rec.Label("rejected:" + msg)
		if !changed {
			ev.Violation(t, "honest-rejected", "%s: unchanged honest answer rejected: %v (%s)", p.name, err, desc)
		}
		return "rejected", d.decodable, true
	}
	if !d.decodable {
		ev.Violation(t, "accepted-undecodable", "%s: verifyBlock accepted an answer the independent decoder cannot decode (%s); mutation: %s", p.name, d.why, desc)
	}
	var real []string
	for _, c := range d.classes {
		if declaredUnbound[c] != "" {
			rec.Label("unbound_declared:" + c)
			continue
		}
		real = append(real, c)
	}
	for _, c := range real {
		if !excluded("unbound-"+c, probe) {
			ev.Violation(t, "unbound-"+c, "%s: verifyBlock ACCEPTED an answer that differs from the honest one in [%s] (first: %s); mutation: %s; mutant meta=%s",
				p.name, strings.Join(d.classes, ","), d.detail, desc, short(m.Meta))
		}
	}
	if len(d.classes) > 0 {
		return "accepted-declared", changed, true
	}
	if len(d.reenc) == 0 {
		rec.Label("accepted_identical:no-op")
	}
	for _, r := range d.reenc {
		if strings.Contains(opLabel, "+") {
			rec.Label("accepted_identical:" + r + "[combination]")
		} else {
			rec.Label("accepted_identical:" + r + "[" + opLabel + "]")
		}
	}
	return "accepted-identical", changed, true
}

func TestC19BlockMutants(t *testing.T) {
	rec := ev.New("C19", "TestC19BlockMutants", blockRule,
		"the light block is the trusted side (already verified by the light client); only the provider's answer is adversarial",
		"Block.Size is declared unverifiable by verifyBlock itself and is not derivable from a header")
	defer rec.Flush()
	fx, err := loadFixtures()
	if err != nil {
		ev.Infra(t, "fixtures: %v", err)
	}
	recorded, err := newPair("recorded(25300000)", fx.blk, fx.lb)
	if err != nil {
		ev.Infra(t, "recorded pair: %v", err)
	}
	var cur string
	ev.Trace = func() any { return cur }
	rapid.Check(t, func(t *rapid.T) {
		cur = ""
		var p *pair
		if rapid.IntRange(0, 4).Draw(t, "base") < 2 {
			p = recorded
		} else {
			ntx := rapid.IntRange(0, 3).Draw(t, "ntx")
			var txs [][]byte
			for i := 0; i < ntx; i++ {
				txs = append(txs, []byte{byte(i), 1, 2})
			}
			p = genSynth(t, "a-", 0, txs, nil).pair
		}
		// another honest pair: same height, the next height, or unrelated
		oh := rapid.SampledFrom([]int64{0, p.blk.Height, p.blk.Height + 1}).Draw(t, "otherHeight")
		other := genSynth(t, "b-", oh, nil, nil).pair

		if err := stateless.VerifVerifyBlock(p.blk, p.lb); err != nil {
			ev.Violation(t, "honest-rejected", "%s: honest answer rejected: %v", p.name, err)
		}

		m := *p.blk
		m.Meta = clone(p.blk.Meta)
		c := &bctx{t: t, p: p, other: other, m: &m}
		nops := rapid.SampledFrom([]int{1, 1, 1, 1, 2}).Draw(t, "nops")
		var names, details []string
		for i := 0; i < nops; i++ {
			op := blockOps[blockOpIdx[pickUniform(t, "op", len(blockOpIdx))]]
			c.detail = ""
			if !op.f(c) {
				rec.Discard("op-not-applicable:" + op.name)
				return
			}
			names = append(names, op.name)
			details = append(details, c.detail)
		}
		desc := fmt.Sprintf("%v %v", names, details)
		cur = p.name + ": " + desc
		outcome, nontrivial, counted := checkBlockMutant(t, rec, false, p, &m, strings.Join(names, "+"), desc)
		if !counted {
			return
		}
		for _, n := range names {
			rec.Label("op:" + n)
		}
		if p == recorded {
			rec.Label("base:recorded")
		} else {
			rec.Label("base:synthesized")
		}
		var sample any
		if nontrivial && rec.WantSample() {
			sample = map[string]any{"base": p.name, "ops": names, "detail": details, "outcome": outcome}
		}
		rec.Case(nontrivial, ev.Fingerprint(p.name, cbor.Marshal(&m), m.Time.String()), sample)
	})
}

// TestC19LastCommitFields is the deterministic minimal reproduction of probe P8 on the recorded
// mainnet pair: one field of the last commit is changed, everything else is the honest answer.
// Sharded by field class so that every unbound class is reported with its own signature.
func TestC19LastCommitFields(t *testing.T) {
	rec := ev.New("C19", "TestC19LastCommitFields",
		"deterministic single-field mutants of the recorded block 25300000: last commit height+1 / round+1 / block id hash bit, part-set total+1, part-set hash bit "+
			"(re-marshalled canonically), plus the honest block against light block 25300001; oracle as in TestC19BlockMutants; one shard per field class")
	defer rec.Flush()
	fx, err := loadFixtures()
	if err != nil {
		ev.Infra(t, "fixtures: %v", err)
	}
	p, err := newPair("recorded(25300000)", fx.blk, fx.lb)
	if err != nil {
		ev.Infra(t, "recorded pair: %v", err)
	}
	shard, _ := strconv.Atoi(os.Getenv("VERIF_SHARD"))
	nshards, _ := strconv.Atoi(os.Getenv("VERIF_NSHARDS"))
	if nshards == 0 {
		nshards = 1
	}
	type mut struct {
		class string
		desc  string
		f     func(pc *cmtproto.Commit)
	}
	muts := []mut{
		{"height", "last commit height + 1", func(pc *cmtproto.Commit) { pc.Height++ }},
		{"round", "last commit round + 1", func(pc *cmtproto.Commit) { pc.Round++ }},
		{"blockid", "last commit block id hash: lowest bit of byte 0 flipped", func(pc *cmtproto.Commit) {
			pc.BlockID.Hash = clone(pc.BlockID.Hash)
			pc.BlockID.Hash[0] ^= 1
		}},
		{"blockid", "last commit block id part-set total + 1", func(pc *cmtproto.Commit) { pc.BlockID.PartSetHeader.Total++ }},
		{"blockid", "last commit block id part-set hash: lowest bit of byte 0 flipped", func(pc *cmtproto.Commit) {
			pc.BlockID.PartSetHeader.Hash = clone(pc.BlockID.PartSetHeader.Hash)
			pc.BlockID.PartSetHeader.Hash[0] ^= 1
		}},
	}
	classes := []string{"height", "round", "blockid"}
	if err := stateless.VerifVerifyBlock(p.blk, p.lb); err != nil {
		ev.Violation(t, "honest-rejected", "recorded block 25300000 rejected: %v", err)
	}
	if err := stateless.VerifVerifyBlock(p.blk, fx.lb2); err == nil {
		ev.Violation(t, "unbound-height", "recorded block 25300000 accepted for light block 25300001")
	}
	rec.Case(true, ev.Fingerprint("other-height"), "honest block 25300000 against light block 25300001: rejected")
	for _, mu := range muts {
		idx := 0
		for i, c := range classes {
			if c == mu.class {
				idx = i
			}
		}
		if idx%nshards != shard%nshards {
			continue
		}
		var pc cmtproto.Commit
		if err := pc.Unmarshal(p.lc); err != nil {
			ev.Infra(t, "honest last commit: %v", err)
		}
		mu.f(&pc)
		b, _ := pc.Marshal()
		m := *p.blk
		m.Meta = cbor.Marshal(cmtapi.BlockMeta{Header: p.hdr, LastCommit: b})
		outcome, nontrivial, counted := checkBlockMutant(t, rec, true, p, &m, "lc-"+mu.class, mu.desc)
		if !counted {
			continue
		}
		rec.Case(nontrivial, ev.Fingerprint(mu.desc), map[string]any{"mutation": mu.desc, "outcome": outcome})
	}
}

// safely runs a call into the code under test and converts a panic into a value.
func safely(f func() error) (err error, panicked any) {
	defer func() {
		if r := recover(); r != nil {
			panicked = r
		}
	}()
	return f(), nil
}

// ------------------------------------------------------------------------------------------
// (b) transaction lists and block results
// ------------------------------------------------------------------------------------------

type txBase struct {
	name        string
	height      int64
	txs         [][]byte
	lb          *cmttypes.LightBlock // its DataHash binds txs
	results     *consensus.BlockResults
	resultsHash []byte // LastResultsHash of the next verified header
	meta        *cmtapi.BlockResultsMeta
}

func decodeResultsMeta(raw []byte) (*cmtapi.BlockResultsMeta, error) {
	var m cmtapi.BlockResultsMeta
	if raw == nil {
		return &m, nil // the node's decoder leaves the value untouched for a nil message
	}
	if err := lenient.Unmarshal(raw, &m); err != nil {
		return nil, err
	}
	return &m, nil
}

var (
	codespaces = []string{"", "staking", "registry", "consensus"}
	logs       = []string{"", "insufficient balance", "invalid nonce", "x"}
)

func genEvent(r *prng) abci.Event {
	e := abci.Event{Type: []string{"oasis_event_staking", "oasis_event_registry", "e"}[r.intn(3)]}
	for i := 0; i < r.intn(3); i++ {
		e.Attributes = append(e.Attributes, abci.EventAttribute{Key: hex.EncodeToString(r.bytes(1 + r.intn(3))), Value: hex.EncodeToString(r.bytes(r.intn(6))), Index: r.intn(2) == 0})
	}
	return e
}

func genTxResult(r *prng) *abci.ResponseDeliverTx {
	res := &abci.ResponseDeliverTx{}
	if r.intn(3) == 0 {
		res.Code = uint32(1 + r.intn(5))
		res.Codespace = codespaces[1+r.intn(len(codespaces)-1)]
		res.Log = logs[1+r.intn(len(logs)-1)]
	}
	switch r.intn(3) {
	case 0:
		res.Data = []byte{0xf6}
	case 1:
		res.Data = r.bytes(1 + r.intn(8))
	}
	res.GasWanted = int64(r.intn(3)) * 1000
	res.GasUsed = int64(r.intn(2000))
	if r.intn(4) == 0 {
		res.Info = "i"
	}
	for i := 0; i < r.intn(3); i++ {
		res.Events = append(res.Events, genEvent(r))
	}
	return res
}

// genTxs draws a transaction list over a small alphabet (duplicates are likely).
func genTxs(t *rapid.T, label string, maxN int) [][]byte {
	n := rapid.IntRange(0, maxN).Draw(t, label+"n")
	txs := make([][]byte, 0, n)
	for i := 0; i < n; i++ {
		id := rapid.IntRange(0, 9).Draw(t, label+"id")
		r := newPrng(uint64(0xabc000 + id))
		txs = append(txs, r.bytes(id*7%23)) // id 0 is the empty transaction
	}
	return txs
}

func genTxBase(t *rapid.T, label string, height int64) *txBase {
	txs := genTxs(t, label, 12)
	s := genSynth(t, label, height, txs, nil)
	r := newPrng(rapid.Uint64().Draw(t, label+"rseed"))
	rr := &cmtapiResults{Height: s.blk.Height}
	for range txs {
		rr.TxsResults = append(rr.TxsResults, genTxResult(r))
	}
	for i := 0; i < r.intn(3); i++ {
		rr.BeginBlockEvents = append(rr.BeginBlockEvents, genEvent(r))
	}
	for i := 0; i < r.intn(3); i++ {
		rr.EndBlockEvents = append(rr.EndBlockEvents, genEvent(r))
	}
	results := cmtapi.NewBlockResults(rr)
	meta, err := decodeResultsMeta(results.Meta)
	if err != nil {
		ev.Infra(t, "synthesized results do not decode: %v", err)
	}
	return &txBase{
		name: "synth-" + s.name, height: s.blk.Height, txs: txs, lb: s.lb, results: results,
		resultsHash: cmttypes.NewResults(rr.TxsResults).Hash(), meta: meta,
	}
}

func cloneTxs(txs [][]byte) [][]byte {
	out := make([][]byte, len(txs))
	for i := range txs {
		out[i] = clone(txs[i])
		if txs[i] != nil && out[i] == nil {
			out[i] = []byte{}
		}
	}
	return out
}

// diffTxs is the independent comparison of two transaction lists.
func diffTxs(honest, m [][]byte) string {
	if len(honest) != len(m) {
		return "txs-count"
	}
	same := true
	for i := range m {
		if !bytes.Equal(honest[i], m[i]) {
			same = false
		}
	}
	if same {
		return ""
	}
	a, b := make([]string, len(m)), make([]string, len(m))
	for i := range m {
		a[i], b[i] = string(honest[i]), string(m[i])
	}
	sort.Strings(a)
	sort.Strings(b)
	for i := range a {
		if a[i] != b[i] {
			return "txs-content"
		}
	}
	return "txs-order"
}

func txsKey(txs [][]byte) []byte {
	h := sha256.New()
	for _, tx := range txs {
		var l [4]byte
		binary.LittleEndian.PutUint32(l[:], uint32(len(tx)))
		h.Write(l[:])
		h.Write(tx)
	}
	return h.Sum(nil)
}

// mutateTxs applies one alteration to the list; ok=false when not applicable.
func mutateTxs(t *rapid.T, honest, foreign [][]byte) (m [][]byte, op, desc string, ok bool) {
	m = cloneTxs(honest)
	n := len(m)
	idx := func(l string) int { return rapid.IntRange(0, n-1).Draw(t, l) }
	op = pickString(t, "txop", []string{"drop", "insert-new", "insert-dup", "insert-empty", "swap", "alter-byte", "truncate", "extend", "clear", "concat", "split", "foreign", "rotate", "replace"})
	desc = op
	switch op {
	case "drop":
		if n == 0 {
			return nil, op, op, false
		}
		i := idx("i")
		m = append(m[:i:i], m[i+1:]...)
		desc = fmt.Sprintf("drop tx %d of %d", i, n)
	case "insert-new", "insert-dup", "insert-empty":
		pos := rapid.IntRange(0, n).Draw(t, "pos")
		var tx []byte
		switch op {
		case "insert-new":
			tx = newPrng(rapid.Uint64().Draw(t, "newtx")).bytes(1 + rapid.IntRange(0, 40).Draw(t, "len"))
		case "insert-dup":
			if n == 0 {
				return nil, op, op, false
			}
			tx = clone(m[idx("j")])
		default:
			tx = []byte{}
		}
		m = append(m[:pos:pos], append([][]byte{tx}, m[pos:]...)...)
		desc = fmt.Sprintf("%s at %d of %d", op, pos, n)
	case "swap":
		if n < 2 {
			return nil, op, op, false
		}
		i, j := idx("i"), idx("j")
		if i == j {
			return nil, op, op, false
		}
		m[i], m[j] = m[j], m[i]
		desc = fmt.Sprintf("swap tx %d and %d", i, j)
	case "rotate":
		if n < 2 {
			return nil, op, op, false
		}
		m = append(m[1:], m[0])
		desc = "rotate list by one"
	case "alter-byte":
		if n == 0 {
			return nil, op, op, false
		}
		i := idx("i")
		if len(m[i]) == 0 {
			return nil, op, op, false
		}
		k := rapid.IntRange(0, len(m[i])-1).Draw(t, "k")
		bit := byte(1) << uint(rapid.IntRange(0, 7).Draw(t, "bit"))
		m[i][k] ^= bit
		desc = fmt.Sprintf("tx %d byte %d ^= 0x%02x", i, k, bit)
	case "truncate":
		if n == 0 {
			return nil, op, op, false
		}
		i := idx("i")
		if len(m[i]) == 0 {
			return nil, op, op, false
		}
		m[i] = m[i][:len(m[i])-1]
		desc = fmt.Sprintf("tx %d truncated by one byte", i)
	case "extend":
		if n == 0 {
			return nil, op, op, false
		}
		i := idx("i")
		m[i] = append(m[i], byte(rapid.IntRange(0, 255).Draw(t, "b")))
		desc = fmt.Sprintf("tx %d extended by one byte", i)
	case "clear":
		if n == 0 {
			return nil, op, op, false
		}
		m = nil
		desc = "empty list"
	case "concat":
		if n < 2 {
			return nil, op, op, false
		}
		i := rapid.IntRange(0, n-2).Draw(t, "i")
		joined := append(clone(m[i]), m[i+1]...)
		m = append(m[:i:i], append([][]byte{joined}, m[i+2:]...)...)
		desc = fmt.Sprintf("tx %d and %d concatenated into one", i, i+1)
	case "split":
		if n == 0 {
			return nil, op, op, false
		}
		i := idx("i")
		if len(m[i]) < 2 {
			return nil, op, op, false
		}
		k := rapid.IntRange(1, len(m[i])-1).Draw(t, "k")
		a, b := clone(m[i][:k]), clone(m[i][k:])
		m = append(m[:i:i], append([][]byte{a, b}, m[i+1:]...)...)
		desc = fmt.Sprintf("tx %d split at %d", i, k)
	case "foreign":
		m = cloneTxs(foreign)
		desc = "transaction list of another block"
	case "replace":
		if n == 0 {
			return nil, op, op, false
		}
		i := idx("i")
		m[i] = newPrng(rapid.Uint64().Draw(t, "newtx")).bytes(len(m[i]))
		desc = fmt.Sprintf("tx %d replaced by other bytes of the same length", i)
	}
	return m, op, desc, true
}

// ---- results

type cmtapiResults = cmtcoretypes.ResultBlockResults

func eventsKey(evs []abci.Event) string {
	var sb strings.Builder
	for _, e := range evs {
		b, _ := e.Marshal()
		fmt.Fprintf(&sb, "%d:%x|", len(b), b)
	}
	return sb.String()
}

// diffResults lists the field classes in which a results answer differs from the honest one.
func diffResults(b *txBase, m *consensus.BlockResults) (decodable bool, why string, classes []string, detail string) {
	add := func(c, format string, args ...any) {
		for _, x := range classes {
			if x == c {
				return
			}
		}
		classes = append(classes, c)
		if detail == "" {
			detail = c + ": " + fmt.Sprintf(format, args...)
		}
	}
	if m.Height != b.height {
		add("results-height", "%d -> %d", b.height, m.Height)
	}
	mm, err := decodeResultsMeta(m.Meta)
	if err != nil {
		return false, err.Error(), classes, detail
	}
	hm := b.meta
	if len(mm.TxsResults) != len(hm.TxsResults) {
		add("results-count", "%d -> %d", len(hm.TxsResults), len(mm.TxsResults))
	} else {
		for i := range mm.TxsResults {
			x, y := hm.TxsResults[i], mm.TxsResults[i]
			if y == nil {
				return false, fmt.Sprintf("result %d is null", i), classes, detail
			}
			if x.Code != y.Code {
				add("results-code", "result %d: %d -> %d", i, x.Code, y.Code)
			}
			if !bytes.Equal(x.Data, y.Data) {
				add("results-data", "result %d: %x -> %x", i, x.Data, y.Data)
			}
			if x.GasWanted != y.GasWanted {
				add("results-gaswanted", "result %d: %d -> %d", i, x.GasWanted, y.GasWanted)
			}
			if x.GasUsed != y.GasUsed {
				add("results-gasused", "result %d: %d -> %d", i, x.GasUsed, y.GasUsed)
			}
			if x.Log != y.Log {
				add("results-log", "result %d: %q -> %q", i, x.Log, y.Log)
			}
			if x.Info != y.Info {
				add("results-info", "result %d: %q -> %q", i, x.Info, y.Info)
			}
			if x.Codespace != y.Codespace {
				add("results-codespace", "result %d: %q -> %q", i, x.Codespace, y.Codespace)
			}
			if eventsKey(x.Events) != eventsKey(y.Events) {
				add("results-tx-events", "result %d", i)
			}
		}
	}
	for _, y := range mm.TxsResults {
		if y == nil {
			return false, "a result is null", classes, detail
		}
	}
	if eventsKey(hm.BeginBlockEvents) != eventsKey(mm.BeginBlockEvents) {
		add("results-beginblock-events", "differ")
	}
	if eventsKey(hm.EndBlockEvents) != eventsKey(mm.EndBlockEvents) {
		add("results-endblock-events", "differ")
	}
	return true, "", classes, detail
}

func cloneResultsMeta(t *rapid.T, raw []byte) *cmtapi.BlockResultsMeta {
	m, err := decodeResultsMeta(raw)
	if err != nil {
		ev.Infra(t, "honest results: %v", err)
	}
	return m
}

// mutateResults applies one alteration to the provider's results answer.
func mutateResults(t *rapid.T, b, other *txBase) (m *consensus.BlockResults, op, desc string, ok bool) {
	m = &consensus.BlockResults{Height: b.results.Height, Meta: clone(b.results.Meta)}
	meta := cloneResultsMeta(t, b.results.Meta)
	n := len(meta.TxsResults)
	idx := func(l string) int { return rapid.IntRange(0, n-1).Draw(t, l) }
	ops := []string{"height", "code", "data", "gas-wanted", "gas-used", "log", "info", "codespace", "tx-events", "block-events",
		"drop", "dup", "swap", "insert", "null-entry", "raw-bit", "raw-truncate", "raw-trailing", "meta-nil", "key-order", "other", "other-adapted", "code+data"}
	op = pickString(t, "resop", ops)
	desc = op
	reenc := true
	switch op {
	case "height":
		m.Height = rapid.SampledFrom([]int64{b.height + 1, b.height - 1, 0, other.height, -b.height}).Draw(t, "h")
		desc = fmt.Sprintf("results height %d -> %d", b.height, m.Height)
		reenc = false
		if m.Height == b.height {
			return nil, op, op, false
		}
	case "code", "data", "gas-wanted", "gas-used", "log", "info", "codespace", "tx-events", "code+data":
		if n == 0 {
			return nil, op, op, false
		}
		i := idx("i")
		r := meta.TxsResults[i]
		switch op {
		case "code":
			r.Code = rapid.SampledFrom([]uint32{r.Code + 1, r.Code ^ 1, 0, 1 << 31}).Draw(t, "v")
		case "data":
			switch pickUniform(t, "how", 4) {
			case 0:
				r.Data = append(clone(r.Data), 0)
			case 1:
				if len(r.Data) == 0 {
					return nil, op, op, false
				}
				r.Data = clone(r.Data)
				r.Data[0] ^= 1
			case 2:
				if len(r.Data) == 0 {
					return nil, op, op, false
				}
				r.Data = nil
			default: // nil <-> empty: the same data
				if len(r.Data) != 0 {
					return nil, op, op, false
				}
				if r.Data == nil {
					r.Data = []byte{}
				} else {
					r.Data = nil
				}
			}
		case "gas-wanted":
			r.GasWanted += rapid.SampledFrom([]int64{1, -1, 1 << 40}).Draw(t, "d")
		case "gas-used":
			r.GasUsed += rapid.SampledFrom([]int64{1, -1, 1 << 40}).Draw(t, "d")
		case "log":
			r.Log += "!"
		case "info":
			r.Info += "!"
		case "codespace":
			r.Codespace = codespaces[(rapid.IntRange(1, 3).Draw(t, "cs"))] + "x"
		case "tx-events":
			switch {
			case len(r.Events) > 0 && pickUniform(t, "how", 2) == 0:
				r.Events = r.Events[1:]
			default:
				r.Events = append(r.Events, abci.Event{Type: "forged", Attributes: []abci.EventAttribute{{Key: "k", Value: "v"}}})
			}
		case "code+data":
			r.Code ^= 1
			r.Data = append(clone(r.Data), 1)
		}
		desc = fmt.Sprintf("result %d of %d: %s altered", i, n, op)
	case "block-events":
		forged := abci.Event{Type: "forged"}
		if pickUniform(t, "which", 2) == 0 {
			meta.BeginBlockEvents = append(meta.BeginBlockEvents, forged)
		} else if len(meta.EndBlockEvents) > 0 {
			meta.EndBlockEvents = meta.EndBlockEvents[1:]
		} else {
			meta.EndBlockEvents = append(meta.EndBlockEvents, forged)
		}
		desc = "begin/end block events altered"
	case "drop":
		if n == 0 {
			return nil, op, op, false
		}
		i := idx("i")
		meta.TxsResults = append(meta.TxsResults[:i:i], meta.TxsResults[i+1:]...)
		desc = fmt.Sprintf("result %d of %d dropped", i, n)
	case "dup":
		if n == 0 {
			return nil, op, op, false
		}
		meta.TxsResults = append(meta.TxsResults, meta.TxsResults[idx("i")])
		desc = "a result appended again"
	case "insert":
		pos := rapid.IntRange(0, n).Draw(t, "pos")
		meta.TxsResults = append(meta.TxsResults[:pos:pos], append([]*abci.ResponseDeliverTx{{}}, meta.TxsResults[pos:]...)...)
		desc = fmt.Sprintf("empty result inserted at %d of %d", pos, n)
	case "null-entry":
		pos := rapid.IntRange(0, n).Draw(t, "pos")
		meta.TxsResults = append(meta.TxsResults[:pos:pos], append([]*abci.ResponseDeliverTx{nil}, meta.TxsResults[pos:]...)...)
		desc = fmt.Sprintf("null result entry inserted at %d of %d", pos, n)
	case "swap":
		if n < 2 {
			return nil, op, op, false
		}
		i, j := idx("i"), idx("j")
		if i == j {
			return nil, op, op, false
		}
		meta.TxsResults[i], meta.TxsResults[j] = meta.TxsResults[j], meta.TxsResults[i]
		desc = fmt.Sprintf("results %d and %d swapped", i, j)
	case "raw-bit":
		reenc = false
		if len(m.Meta) == 0 {
			return nil, op, op, false
		}
		pos := rapid.IntRange(0, len(m.Meta)-1).Draw(t, "pos")
		if rapid.IntRange(0, 2).Draw(t, "head") == 0 && len(m.Meta) > 64 {
			pos %= 64
		}
		bit := byte(1) << uint(rapid.IntRange(0, 7).Draw(t, "bit"))
		m.Meta[pos] ^= bit
		desc = fmt.Sprintf("results meta byte %d of %d ^= 0x%02x", pos, len(m.Meta), bit)
	case "raw-truncate":
		reenc = false
		if len(m.Meta) < 2 {
			return nil, op, op, false
		}
		m.Meta = m.Meta[:len(m.Meta)-1-rapid.IntRange(0, len(m.Meta)-2).Draw(t, "k")]
		desc = "results meta truncated"
	case "raw-trailing":
		reenc = false
		m.Meta = append(m.Meta, 0xf6)
		desc = "results meta + trailing byte"
	case "meta-nil":
		reenc = false
		m.Meta = nil
		desc = "results meta = nil"
		if n == 0 && len(b.meta.BeginBlockEvents) == 0 && len(b.meta.EndBlockEvents) == 0 {
			return nil, op, op, false
		}
	case "key-order":
		reenc = false
		var parts map[string]fxcbor.RawMessage
		if err := lenient.Unmarshal(b.results.Meta, &parts); err != nil {
			ev.Infra(t, "honest results meta as map: %v", err)
		}
		keys := make([]string, 0, len(parts))
		for k := range parts {
			keys = append(keys, k)
		}
		sort.Strings(keys) // lexicographic, which is not the canonical (length-first) order
		var entries []rawEntry
		for _, k := range keys {
			entries = append(entries, rawEntry{k, parts[k]})
		}
		m.Meta = rawMap(entries, 1, 1)
		desc = "results meta re-encoded with non-canonical key order and length widths"
		if bytes.Equal(m.Meta, b.results.Meta) {
			return nil, op, op, false
		}
	case "other", "other-adapted":
		reenc = false
		m = &consensus.BlockResults{Height: other.results.Height, Meta: clone(other.results.Meta)}
		desc = "results answer of " + other.name
		if op == "other-adapted" {
			m.Height = b.height
			desc += " with the height adapted"
		}
	}
	if reenc {
		m.Meta = cbor.Marshal(meta)
	}
	return m, op, desc, true
}

const txResultsRule = "case = honest transaction list / block results answer (recorded mainnet block 25300000: 27 txs, results bound by LastResultsHash of light block 25300001; " +
	"or synthesized: 0-12 txs over a 10-letter alphabet incl. duplicates and the empty tx, generated results with codes/data/gas/log/info/codespace/events, hash computed " +
	"the CometBFT way) + one alteration: txs drop/insert(new,duplicate,empty)/swap/rotate/alter bit/truncate/extend/clear/concat/split/replace/list of another block " +
	"(other or same height); results height, per-result code/data/gas wanted/gas used/log/info/codespace/events, begin/end block events, drop/dup/swap/insert/null entry, " +
	"raw bit/truncate/trailing/nil, non-canonical re-encoding, answer of another block (also with adapted height); oracle = honest verifies AND mutant rejected OR " +
	"element-wise identical list / field-wise identical results under an independent decode; events are declared unverified by the code (TODO #6210) -> unbound_declared; " +
	"a panic is a violation; non-trivial = mutant differs and still decodes (reaches the hash comparison); distinct = hash of base and mutant"

func TestC19TxAndResults(t *testing.T) {
	rec := ev.New("C19", "TestC19TxAndResults", txResultsRule,
		"results are checked for heights below the latest trusted one (the pure verifyBlockResults with the next header's LastResultsHash)",
		"events of block results are declared unverified by verifyBlockResults itself (TODO #6210)")
	defer rec.Flush()
	fx, err := loadFixtures()
	if err != nil {
		ev.Infra(t, "fixtures: %v", err)
	}
	recorded, err := recordedTxBase(fx)
	if err != nil {
		ev.Infra(t, "recorded results: %v", err)
	}
	var cur string
	ev.Trace = func() any { return cur }
	rapid.Check(t, func(t *rapid.T) {
		cur = ""
		var b *txBase
		if rapid.IntRange(0, 3).Draw(t, "base") == 0 {
			b = recorded
		} else {
			b = genTxBase(t, "a-", 0)
		}
		other := genTxBase(t, "b-", rapid.SampledFrom([]int64{0, b.height, b.height + 1}).Draw(t, "otherHeight"))

		// honest answers verify
		if err, p := safely(func() error { return stateless.VerifVerifyTransactions(b.txs, b.lb) }); err != nil || p != nil {
			ev.Violation(t, "honest-rejected", "%s: honest transaction list rejected: %v %v", b.name, err, p)
		}
		if err, p := safely(func() error {
			_, e := stateless.VerifVerifyBlockResults(b.results, b.resultsHash, b.lb)
			return e
		}); err != nil || p != nil {
			ev.Violation(t, "honest-rejected", "%s: honest block results rejected: %v %v", b.name, err, p)
		}

		if pickUniform(t, "kind", 3) == 0 {
			// ---- transactions
			m, op, desc, ok := mutateTxs(t, b.txs, other.txs)
			if !ok {
				rec.Discard("op-not-applicable")
				return
			}
			cur = b.name + ": txs: " + desc
			class := diffTxs(b.txs, m)
			err, p := safely(func() error { return stateless.VerifVerifyTransactions(m, b.lb) })
			if p != nil {
				ev.Violation(t, "panic-verifyTransactions", "%s: %s: panic %v", b.name, desc, p)
			}
			outcome := "rejected"
			if err == nil {
				if class != "" {
					ev.Violation(t, "unbound-"+class, "%s: verifyTransactions ACCEPTED a list that differs from the honest one (%s); mutation: %s; honest=%d txs mutant=%d txs",
						b.name, class, desc, len(b.txs), len(m))
				}
				outcome = "accepted-identical"
				rec.Label("txs:accepted_identical")
			} else {
				rec.Label("txs:rejected")
			}
			rec.Label("txop:" + op)
			var sample any
			if rec.WantSample() {
				sample = map[string]any{"base": b.name, "kind": "txs", "mutation": desc, "outcome": outcome}
			}
			rec.Case(class != "", ev.Fingerprint("txs", txsKey(b.txs), txsKey(m), b.lb.Height), sample)
			return
		}

		// ---- results
		m, op, desc, ok := mutateResults(t, b, other)
		if !ok {
			rec.Discard("op-not-applicable:results-" + op)
			return
		}
		cur = b.name + ": results: " + desc
		outcome, nontrivial, counted := checkResultsMutant(t, rec, false, b, m, desc)
		if !counted {
			return
		}
		rec.Label("resop:" + op)
		var sample any
		if nontrivial && rec.WantSample() {
			sample = map[string]any{"base": b.name, "kind": "results", "mutation": desc, "outcome": outcome}
		}
		rec.Case(nontrivial, ev.Fingerprint("results", b.name, b.resultsHash, m.Height, []byte(m.Meta)), sample)
	})
}

// checkResultsMutant runs the results oracle on one mutant (shared by the random and the
// deterministic test). counted=false: excluded by construction.
func checkResultsMutant(t ev.Failer, rec *ev.Recorder, probe bool, b *txBase, m *consensus.BlockResults, desc string) (outcome string, nontrivial, counted bool) {
	decodable, why, classes, detail := diffResults(b, m)
	if decodable && len(classes) > 0 {
		nExcl, rest := 0, 0
		for _, c := range classes {
			switch {
			case excluded("unbound-"+c, probe):
				nExcl++
			case declaredUnbound[c] != "":
			default:
				rest++
			}
		}
		if nExcl > 0 && rest == 0 {
			rec.Discard("excluded:unbound-results")
			return "", false, false
		}
	}
	var got *cmtapi.BlockResultsMeta
	err, p := safely(func() error {
		var e error
		got, e = stateless.VerifVerifyBlockResults(m, b.resultsHash, b.lb)
		return e
	})
	if p != nil {
		if excluded("panic-verifyBlockResults", probe) {
			rec.Discard("excluded:panic-verifyBlockResults")
			return "", false, false
		}
		ev.Violation(t, "panic-verifyBlockResults", "%s: verifyBlockResults PANICKED (%v) on: %s; meta=%s", b.name, p, desc, short(m.Meta))
	}
	changed := m.Height != b.results.Height || !bytes.Equal(m.Meta, b.results.Meta)
	outcome = "rejected"
	if err != nil {
		msg := err.Error()
		if i := strings.Index(msg, ":"); i > 0 {
			msg = msg[:i]
		}
		rec.Label("results:rejected:" + msg)
		if !changed {
			ev.Violation(t, "honest-rejected", "%s: unchanged honest results rejected: %v", b.name, err)
		}
		return outcome, changed && decodable, true
	}
	if !decodable {
		ev.Violation(t, "accepted-undecodable", "%s: verifyBlockResults accepted an answer the independent decoder cannot decode (%s); mutation: %s", b.name, why, desc)
	}
	// the returned decoded form is what callers use: it must be what the answer decodes to
	if got == nil || (len(got.TxsResults) != len(b.meta.TxsResults) && len(classes) == 0) {
		ev.Violation(t, "results-returned-meta", "%s: accepted answer but returned meta is inconsistent; mutation: %s", b.name, desc)
	}
	outcome = "accepted-identical"
	for _, c := range classes {
		if declaredUnbound[c] != "" {
			rec.Label("results:unbound_declared:" + c)
			outcome = "accepted-declared"
		}
	}
	for _, c := range classes {
		if declaredUnbound[c] == "" && !excluded("unbound-"+c, probe) {
			ev.Violation(t, "unbound-"+c, "%s: verifyBlockResults ACCEPTED an answer that differs from the honest one in [%s] (first: %s); mutation: %s",
				b.name, strings.Join(classes, ","), detail, desc)
		}
	}
	if len(classes) == 0 {
		if changed {
			rec.Label("results:accepted_identical:reencoded")
		} else {
			rec.Label("results:accepted_identical:no-op")
		}
	}
	return outcome, changed && decodable, true
}

func recordedTxBase(fx *fixtures) (*txBase, error) {
	rmeta, err := decodeResultsMeta(fx.results.Meta)
	if err != nil {
		return nil, err
	}
	return &txBase{name: "recorded(25300000)", height: fx.lb.Height, txs: fx.txs, lb: fx.lb, results: fx.results, resultsHash: fx.lb2.LastResultsHash, meta: rmeta}, nil
}

// TestC19ResultsFields holds the deterministic minimal mutants of the recorded block results
// 25300000 (bound by LastResultsHash of light block 25300001): one field of the first transaction
// result changed, or one null entry appended. One shard per class, so that every class found by
// TestC19TxAndResults is reported under its own signature in every run.
func TestC19ResultsFields(t *testing.T) {
	rec := ev.New("C19", "TestC19ResultsFields",
		"deterministic single-field mutants of the recorded block results 25300000: result 0 code+1 / data / gas wanted / gas used (must be rejected), log / info / "+
			"codespace suffix, null entry appended, height+1, results against the wrong results hash; oracle as in TestC19TxAndResults; sharded by class")
	defer rec.Flush()
	fx, err := loadFixtures()
	if err != nil {
		ev.Infra(t, "fixtures: %v", err)
	}
	b, err := recordedTxBase(fx)
	if err != nil {
		ev.Infra(t, "recorded results: %v", err)
	}
	shard, _ := strconv.Atoi(os.Getenv("VERIF_SHARD"))
	nshards, _ := strconv.Atoi(os.Getenv("VERIF_NSHARDS"))
	if nshards == 0 {
		nshards = 1
	}
	type mut struct {
		desc string
		f    func(m *cmtapi.BlockResultsMeta, r *consensus.BlockResults)
	}
	muts := []mut{
		{"result 0: log + \"!\"", func(m *cmtapi.BlockResultsMeta, _ *consensus.BlockResults) { m.TxsResults[0].Log += "!" }},
		{"result 0: info + \"!\"", func(m *cmtapi.BlockResultsMeta, _ *consensus.BlockResults) { m.TxsResults[0].Info += "!" }},
		{"result 0: codespace + \"x\"", func(m *cmtapi.BlockResultsMeta, _ *consensus.BlockResults) { m.TxsResults[0].Codespace += "x" }},
		{"null entry appended to txs_results", func(m *cmtapi.BlockResultsMeta, _ *consensus.BlockResults) { m.TxsResults = append(m.TxsResults, nil) }},
		{"result 0: code + 1", func(m *cmtapi.BlockResultsMeta, _ *consensus.BlockResults) { m.TxsResults[0].Code++ }},
		{"result 0: data + 0x00", func(m *cmtapi.BlockResultsMeta, _ *consensus.BlockResults) {
			m.TxsResults[0].Data = append(clone(m.TxsResults[0].Data), 0)
		}},
		{"result 0: gas wanted + 1", func(m *cmtapi.BlockResultsMeta, _ *consensus.BlockResults) { m.TxsResults[0].GasWanted++ }},
		{"result 0: gas used + 1", func(m *cmtapi.BlockResultsMeta, _ *consensus.BlockResults) { m.TxsResults[0].GasUsed++ }},
		{"last result dropped", func(m *cmtapi.BlockResultsMeta, _ *consensus.BlockResults) {
			m.TxsResults = m.TxsResults[:len(m.TxsResults)-1]
		}},
		{"height + 1", func(_ *cmtapi.BlockResultsMeta, r *consensus.BlockResults) { r.Height++ }},
	}
	if _, err := stateless.VerifVerifyBlockResults(b.results, b.resultsHash, b.lb); err != nil {
		ev.Violation(t, "honest-rejected", "recorded block results 25300000 rejected: %v", err)
	}
	if _, err := stateless.VerifVerifyBlockResults(b.results, fx.lb.LastResultsHash, b.lb); err == nil {
		ev.Violation(t, "unbound-results-hash", "recorded block results 25300000 accepted against the results hash of another height")
	}
	rec.Case(true, ev.Fingerprint("wrong-hash"), "honest results 25300000 against LastResultsHash of light block 25300000: rejected")
	// must-be-rejected mutants (index >= 4) first, so that a reported finding does not hide them
	order := []int{4, 5, 6, 7, 8, 9, 0, 1, 2, 3}
	for _, i := range order {
		mu := muts[i]
		if i%nshards != shard%nshards {
			continue
		}
		meta, err := decodeResultsMeta(b.results.Meta)
		if err != nil || len(meta.TxsResults) == 0 {
			ev.Infra(t, "recorded results: %v", err)
		}
		m := &consensus.BlockResults{Height: b.results.Height}
		mu.f(meta, m)
		m.Meta = cbor.Marshal(meta)
		outcome, nontrivial, counted := checkResultsMutant(t, rec, true, b, m, mu.desc)
		if !counted {
			continue
		}
		rec.Case(nontrivial, ev.Fingerprint(mu.desc), map[string]any{"mutation": mu.desc, "outcome": outcome})
	}
}

// ------------------------------------------------------------------------------------------
// (c) transaction inclusion proofs
// ------------------------------------------------------------------------------------------

// proofView is the test's own view of an encoded inclusion proof.
type proofView struct {
	Total    int64    `cbor:"total"`
	Index    int64    `cbor:"index"`
	LeafHash []byte   `cbor:"leaf_hash"`
	Aunts    [][]byte `cbor:"aunts"`
}

type signedList struct {
	txs []*transaction.SignedTransaction
	raw [][]byte
}

func mkSignedTx(id int) *transaction.SignedTransaction {
	r := newPrng(uint64(0x517000 + id))
	var st transaction.SignedTransaction
	st.Blob = r.bytes(id * 5 % 17)
	copy(st.Signature.PublicKey[:], r.bytes(32))
	copy(st.Signature.Signature[:], r.bytes(64))
	return &st
}

func genSignedList(t *rapid.T, label string, lo, hi int) *signedList {
	n := rapid.IntRange(lo, hi).Draw(t, label+"n")
	alphabet := rapid.SampledFrom([]int{1, 2, 4, 12, 1000}).Draw(t, label+"alphabet")
	l := &signedList{}
	for i := 0; i < n; i++ {
		st := mkSignedTx(rapid.IntRange(0, alphabet-1).Draw(t, label+"id"))
		l.txs = append(l.txs, st)
		l.raw = append(l.raw, cbor.Marshal(st))
	}
	return l
}

func (l *signedList) clone() *signedList {
	return &signedList{txs: append([]*transaction.SignedTransaction(nil), l.txs...), raw: cloneTxs(l.raw)}
}

func lightBlockFor(height int64, raw [][]byte) *cmttypes.LightBlock {
	var txs cmttypes.Txs
	for _, tx := range raw {
		txs = append(txs, tx)
	}
	// The data hash the CometBFT way (merkle tree over the transaction hashes), not via the repo's package.
	return &cmttypes.LightBlock{SignedHeader: &cmttypes.SignedHeader{Header: &cmttypes.Header{Height: height, DataHash: txs.Hash()}}}
}

// trueMembership decides, independently of the code under test, whether an accepted proof states a
// true fact about the list: it names an index of the list at which exactly these bytes stand.
//
// member: these exact bytes are a transaction of the list (what the function attests).
// position: additionally the proof's own index/total claims are true for the list. CometBFT's
// proof format does not bind these completely (the same aunts give the same root for several
// (index,total) pairs, e.g. index 0 with total 5..8), and verifyTransactionProof does not output
// them, so a wrong position with a true membership is counted, not alarmed.
func trueMembership(rawProof []byte, list [][]byte, tx []byte) (member, position bool, pv proofView, why string) {
	if err := lenient.Unmarshal(rawProof, &pv); err != nil {
		return false, false, pv, "proof does not decode: " + err.Error()
	}
	for _, x := range list {
		if bytes.Equal(x, tx) {
			member = true
		}
	}
	if !member {
		return false, false, pv, "the transaction is not in the list"
	}
	position = pv.Total == int64(len(list)) && pv.Index >= 0 && pv.Index < pv.Total && bytes.Equal(list[pv.Index], tx)
	return member, position, pv, ""
}

func cborInt(v int64, width int) []byte {
	if v >= 0 {
		return cborHead(0, uint64(v), width)
	}
	return cborHead(1, uint64(-1-v), width)
}

func encodeProofRaw(pv *proofView, order []string, width int) []byte {
	var entries []rawEntry
	for _, k := range order {
		switch k {
		case "total":
			entries = append(entries, rawEntry{k, cborInt(pv.Total, width)})
		case "index":
			entries = append(entries, rawEntry{k, cborInt(pv.Index, width)})
		case "leaf_hash":
			entries = append(entries, rawEntry{k, cborBstr(pv.LeafHash, width)})
		case "aunts":
			if pv.Aunts == nil {
				continue
			}
			a := cborHead(4, uint64(len(pv.Aunts)), width)
			for _, x := range pv.Aunts {
				a = append(a, cborBstr(x, width)...)
			}
			entries = append(entries, rawEntry{k, a})
		}
	}
	return rawMap(entries, width, width)
}

var canonicalProofOrder = []string{"aunts", "index", "total", "leaf_hash"}

// mutateProof alters an encoded proof.
func mutateProof(t *rapid.T, honest []byte, l *signedList, i int) (out []byte, op string, ok bool) {
	var pv proofView
	if err := lenient.Unmarshal(honest, &pv); err != nil {
		ev.Infra(t, "honest proof does not decode: %v", err)
	}
	op = pickString(t, "pop", []string{"bit", "bit", "byte", "truncate", "append", "insert", "total", "index", "leafhash", "aunt-drop", "aunt-add", "aunt-swap", "aunt-bit",
		"reencode-order", "reencode-width", "empty"})
	flip := func(b []byte) []byte {
		o := clone(b)
		if len(o) == 0 {
			return []byte{1}
		}
		o[rapid.IntRange(0, len(o)-1).Draw(t, "k")] ^= byte(1) << uint(rapid.IntRange(0, 7).Draw(t, "bit"))
		return o
	}
	structured := true
	switch op {
	case "bit":
		out, structured = flip(honest), false
	case "byte":
		out, structured = clone(honest), false
		out[rapid.IntRange(0, len(out)-1).Draw(t, "k")] = byte(rapid.IntRange(0, 255).Draw(t, "v"))
	case "truncate":
		out, structured = clone(honest[:len(honest)-1-rapid.IntRange(0, len(honest)-1).Draw(t, "k")]), false
	case "append":
		out, structured = append(clone(honest), byte(rapid.IntRange(0, 255).Draw(t, "v"))), false
	case "insert":
		k := rapid.IntRange(0, len(honest)).Draw(t, "k")
		out, structured = append(clone(honest[:k]), append([]byte{byte(rapid.IntRange(0, 255).Draw(t, "v"))}, honest[k:]...)...), false
	case "empty":
		out, structured = []byte{}, false
	case "total":
		pv.Total += rapid.SampledFrom([]int64{1, -1, 2, -pv.Total, 1 << 40}).Draw(t, "d")
	case "index":
		pv.Index = rapid.SampledFrom([]int64{pv.Index + 1, pv.Index - 1, 0, pv.Total - 1, pv.Total, -1, pv.Index ^ 1}).Draw(t, "v")
	case "leafhash":
		if pickUniform(t, "how", 2) == 0 || len(l.raw) < 2 {
			pv.LeafHash = flip(pv.LeafHash)
		} else {
			// the leaf hash of another member
			j := rapid.IntRange(0, len(l.raw)-1).Draw(t, "j")
			h := sha256.Sum256(l.raw[j])
			lh := sha256.Sum256(append([]byte{0}, h[:]...))
			pv.LeafHash = lh[:]
		}
	case "aunt-drop":
		if len(pv.Aunts) == 0 {
			return nil, op, false
		}
		k := rapid.IntRange(0, len(pv.Aunts)-1).Draw(t, "k")
		pv.Aunts = append(pv.Aunts[:k:k], pv.Aunts[k+1:]...)
	case "aunt-add":
		k := rapid.IntRange(0, len(pv.Aunts)).Draw(t, "k")
		extra := newPrng(rapid.Uint64().Draw(t, "aunt")).bytes(32)
		pv.Aunts = append(pv.Aunts[:k:k], append([][]byte{extra}, pv.Aunts[k:]...)...)
	case "aunt-swap":
		if len(pv.Aunts) < 2 {
			return nil, op, false
		}
		a := rapid.IntRange(0, len(pv.Aunts)-2).Draw(t, "k")
		if bytes.Equal(pv.Aunts[a], pv.Aunts[a+1]) {
			return nil, op, false
		}
		pv.Aunts[a], pv.Aunts[a+1] = pv.Aunts[a+1], pv.Aunts[a]
	case "aunt-bit":
		if len(pv.Aunts) == 0 {
			return nil, op, false
		}
		k := rapid.IntRange(0, len(pv.Aunts)-1).Draw(t, "k")
		pv.Aunts[k] = flip(pv.Aunts[k])
	case "reencode-order":
		out, structured = encodeProofRaw(&pv, []string{"leaf_hash", "total", "index", "aunts"}, 0), false
	case "reencode-width":
		out, structured = encodeProofRaw(&pv, canonicalProofOrder, rapid.SampledFrom([]int{1, 2, 4, 8}).Draw(t, "w")), false
	}
	if structured {
		out = encodeProofRaw(&pv, canonicalProofOrder, 0)
	}
	return out, op, !bytes.Equal(out, honest)
}

const proofRule = "case = list L of 0-30 signed transactions over an alphabet of 1/2/4/12/1000 distinct transactions (duplicates frequent), proofs built by the node's " +
	"transactionsWithProofs, light block data hash computed the CometBFT way; checks: every pair (i,j): verifyTransactionProof(p_i, L[j]) succeeds iff L[i]==L[j] byte-wise; " +
	"a foreign transaction fails with every proof; every p_i against the light block of another list B (L with one alteration, or unrelated; selected by Proof.Height as " +
	"the caller does) and 8 altered proofs per case (bit/byte/truncate/append/insert, total, index, leaf hash incl. another member's, aunts drop/add/swap/bit, " +
	"non-canonical re-encodings) succeed only if, under an independent decode, the proof's total equals the list length and the list holds exactly these bytes at the " +
	"proof's index; non-trivial = list of >= 2 transactions; distinct = hash of both lists and the altered proofs"

func TestC19TxProof(t *testing.T) {
	rec := ev.New("C19", "TestC19TxProof", proofRule,
		"the caller selects the light block by Proof.Height (Core.SubmitTxWithProof); the pure function ignores the height field",
		"SHA-256 collisions are out of scope")
	defer rec.Flush()
	var cur string
	ev.Trace = func() any { return cur }
	verify := func(raw []byte, height int64, tx *transaction.SignedTransaction, lbs map[int64]*cmttypes.LightBlock) (error, any) {
		proof := &transaction.Proof{Height: height, RawProof: raw}
		return safely(func() error { return stateless.VerifVerifyTransactionProof(proof, tx, lbs[proof.Height]) })
	}
	rapid.Check(t, func(t *rapid.T) {
		l := genSignedList(t, "L-", 0, 30)
		n := len(l.raw)
		h := int64(rapid.SampledFrom([]int{1, 7, 25300000}).Draw(t, "height"))
		cur = fmt.Sprintf("n=%d", n)

		// the other list
		var b *signedList
		bdesc := "unrelated"
		if n > 0 && rapid.IntRange(0, 3).Draw(t, "bkind") > 0 {
			b = l.clone()
			i := rapid.IntRange(0, n-1).Draw(t, "bi")
			switch pickUniform(t, "bop", 5) {
			case 0:
				b.txs, b.raw = append(b.txs[:i:i], b.txs[i+1:]...), append(b.raw[:i:i], b.raw[i+1:]...)
				bdesc = fmt.Sprintf("L without tx %d", i)
			case 1:
				st := mkSignedTx(rapid.IntRange(0, 1200).Draw(t, "bid"))
				b.txs = append(b.txs[:i:i], append([]*transaction.SignedTransaction{st}, b.txs[i:]...)...)
				b.raw = append(b.raw[:i:i], append([][]byte{cbor.Marshal(st)}, b.raw[i:]...)...)
				bdesc = fmt.Sprintf("L with a tx inserted at %d", i)
			case 2:
				j := rapid.IntRange(0, n-1).Draw(t, "bj")
				b.txs[i], b.txs[j] = b.txs[j], b.txs[i]
				b.raw[i], b.raw[j] = b.raw[j], b.raw[i]
				bdesc = fmt.Sprintf("L with tx %d and %d swapped", i, j)
			case 3:
				st := mkSignedTx(rapid.IntRange(0, 1200).Draw(t, "bid"))
				b.txs[i], b.raw[i] = st, cbor.Marshal(st)
				bdesc = fmt.Sprintf("L with tx %d replaced", i)
			default:
				b.txs, b.raw = append(b.txs, b.txs[i]), append(b.raw, b.raw[i])
				bdesc = fmt.Sprintf("L with tx %d appended again", i)
			}
		} else {
			b = genSignedList(t, "B-", 0, 30)
		}
		lbs := map[int64]*cmttypes.LightBlock{h: lightBlockFor(h, l.raw), h + 1: lightBlockFor(h+1, b.raw)}

		twp := stateless.VerifTransactionsWithProofs(l.raw)
		if len(twp.Proofs) != n || len(twp.Transactions) != n {
			ev.Violation(t, "proof-count", "%d transactions, %d proofs", n, len(twp.Proofs))
		}
		if root := merkle.RootHashOfTransactions(l.raw); !bytes.Equal(root, lbs[h].DataHash) {
			ev.Violation(t, "proof-root", "merkle.RootHashOfTransactions differs from the header data hash for %d txs", n)
		}

		dup := false
		// every proof against every member
		for i := 0; i < n; i++ {
			for j := 0; j < n; j++ {
				want := bytes.Equal(l.raw[i], l.raw[j])
				if want && i != j {
					dup = true
				}
				err, p := verify(twp.Proofs[i], h, l.txs[j], lbs)
				if p != nil {
					ev.Violation(t, "panic-verifyTransactionProof", "n=%d i=%d j=%d: panic %v", n, i, j, p)
				}
				if want && err != nil {
					ev.Violation(t, "proof-honest-rejected", "n=%d: proof %d rejected for L[%d] (same bytes as L[%d]): %v", n, i, j, i, err)
				}
				if !want && err == nil {
					ev.Violation(t, "proof-wrong-tx", "n=%d: proof of index %d verifies for the different transaction L[%d]", n, i, j)
				}
			}
		}
		// a transaction that is not in the list
		foreign := mkSignedTx(5000)
		for i := 0; i < n; i++ {
			if err, p := verify(twp.Proofs[i], h, foreign, lbs); err == nil || p != nil {
				ev.Violation(t, "proof-wrong-tx", "n=%d: proof %d verifies for a transaction that is not in the list (panic=%v)", n, i, p)
			}
		}
		if n == 0 {
			for _, raw := range [][]byte{nil, {}, {0xa0}, cbor.Marshal(proofView{})} {
				if err, p := verify(raw, h, foreign, lbs); err == nil || p != nil {
					ev.Violation(t, "proof-empty-list", "a proof %x verifies against the empty list (panic=%v)", raw, p)
				}
			}
		}
		// proofs of L presented for the other block
		crossAccepted := 0
		for i := 0; i < n; i++ {
			err, p := verify(twp.Proofs[i], h+1, l.txs[i], lbs)
			if p != nil {
				ev.Violation(t, "panic-verifyTransactionProof", "cross list n=%d i=%d: panic %v", n, i, p)
			}
			if err == nil {
				member, position, _, why := trueMembership(twp.Proofs[i], b.raw, l.raw[i])
				if !member {
					ev.Violation(t, "proof-other-block", "n=%d: proof %d of L verifies against another block (%s) although: %s", n, i, bdesc, why)
				}
				if !position {
					rec.Label("cross_block_accepted_wrong_position")
				}
				crossAccepted++
			}
		}
		if crossAccepted > 0 {
			rec.Label("cross_block_accepted_true_membership")
		}
		// altered proofs
		fpParts := []any{txsKey(l.raw), txsKey(b.raw), h}
		malleable := ""
		if n > 0 {
			for k := 0; k < 8; k++ {
				i := rapid.IntRange(0, n-1).Draw(t, "pi")
				raw, op, ok := mutateProof(t, twp.Proofs[i], l, i)
				if !ok {
					rec.Discard("proof-op-not-applicable:" + op)
					continue
				}
				fpParts = append(fpParts, raw)
				targets := []int{i, rapid.IntRange(0, n-1).Draw(t, "pj")}
				for _, j := range targets {
					cur = fmt.Sprintf("n=%d proof %d altered by %s, presented for L[%d]: %x", n, i, op, j, raw)
					err, p := verify(raw, h, l.txs[j], lbs)
					if p != nil {
						ev.Violation(t, "panic-verifyTransactionProof", "%s: panic %v", cur, p)
					}
					if err != nil {
						rec.Label("proof_mutant:rejected")
						continue
					}
					member, position, pv, why := trueMembership(raw, l.raw, l.raw[j])
					if !member {
						ev.Violation(t, "proof-false-membership", "%s: ACCEPTED although %s", cur, why)
					}
					var hv proofView
					_ = lenient.Unmarshal(twp.Proofs[i], &hv)
					switch {
					case !position:
						rec.Label("proof_mutant:accepted_member_wrong_position:" + op)
						if rec.WantSample() {
							malleable = fmt.Sprintf("list of %d: proof for index %d accepted with index=%d total=%d", n, hv.Index, pv.Index, pv.Total)
						}
					case pv.Index == hv.Index && pv.Total == hv.Total && bytes.Equal(pv.LeafHash, hv.LeafHash) && len(pv.Aunts) == len(hv.Aunts):
						rec.Label("proof_mutant:accepted_identical:" + op)
					default:
						rec.Label("proof_mutant:accepted_other_true_position:" + op)
					}
				}
			}
		}
		if dup {
			rec.Label("list-with-duplicates")
		}
		rec.Label(fmt.Sprintf("n:%s", map[bool]string{true: ">=2", false: "<2"}[n >= 2]))
		var sample any
		if n >= 2 && rec.WantSample() {
			sample = map[string]any{"n": n, "duplicates": dup, "other_list": bdesc, "pairs_checked": n * n, "position_malleability_seen": malleable}
		}
		rec.Case(n >= 2, ev.Fingerprint(fpParts...), sample)
	})
}

// ------------------------------------------------------------------------------------------
// (d) state root from the block metadata transaction
// ------------------------------------------------------------------------------------------

var (
	chainCtxOnce sync.Once
	proposerKey  = memory.NewTestSigner("c19 block proposer")
	attackerKey  = memory.NewTestSigner("c19 malicious provider")
)

// mainnetChainContext is the signature domain separation context of the network the recorded
// fixtures come from (the header's chain id is its first 50 characters); with it the recorded
// metadata transaction's signature can be checked independently. Synthesized transactions are
// signed under the same context.
const mainnetChainContext = "bb3d748def55bdfb797a2ac53ee6ee141e54cd2ab2dc2375f4a0703a178e6e55"

func setChainContext() {
	chainCtxOnce.Do(func() { signature.SetChainContext(mainnetChainContext) })
}

func mkMetaTx(t ev.Failer, signer signature.Signer, root hash.Hash, eventsRoot []byte) []byte {
	tx := consensus.NewBlockMetadataTx(&consensus.BlockMetadata{StateRoot: root, EventsRoot: eventsRoot})
	st, err := transaction.Sign(signer, tx)
	if err != nil {
		ev.Infra(t, "sign metadata tx: %v", err)
	}
	return cbor.Marshal(st)
}

func addressOf(pk signature.PublicKey) []byte {
	return []byte(cmtcrypto.PublicKeyToCometBFT(&pk).Address())
}

// metaTxInfo inspects a transaction independently: does it decode to a metadata transaction, is
// its signature valid, is it signed by the given proposer.
func metaTxInfo(raw, proposerAddr []byte) (isMeta, validSig, byProposer bool, root hash.Hash) {
	var st transaction.SignedTransaction
	if err := lenient.Unmarshal(raw, &st); err != nil {
		return
	}
	var tx transaction.Transaction
	if err := lenient.Unmarshal(st.Blob, &tx); err != nil || tx.Method != consensus.MethodMeta {
		return
	}
	var meta consensus.BlockMetadata
	if err := lenient.Unmarshal(tx.Body, &meta); err != nil {
		return
	}
	isMeta, root = true, meta.StateRoot
	var opened transaction.Transaction
	validSig = st.Open(&opened) == nil
	byProposer = bytes.Equal(addressOf(st.Signature.PublicKey), proposerAddr)
	return
}

type rootBase struct {
	name     string
	txs      [][]byte
	lb       *cmttypes.LightBlock
	root     hash.Hash // the true state root after the block
	proposer []byte
	synth    bool
}

func genRootBase(t *rapid.T, label string, height int64) *rootBase {
	r := newPrng(rapid.Uint64().Draw(t, label+"rootseed"))
	var root hash.Hash
	copy(root[:], r.bytes(32))
	txs := genTxs(t, label, 5)
	txs = append(txs, mkMetaTx(t, proposerKey, root, r.bytes(32)))
	s := genSynth(t, label, height, txs, addressOf(proposerKey.Public()))
	return &rootBase{name: "synth-" + s.name, txs: txs, lb: s.lb, root: root, proposer: addressOf(proposerKey.Public()), synth: true}
}

const rootRule = "case = honest transaction list ending in the proposer-signed block metadata transaction (recorded mainnet block 25300000 with the true root = app hash of " +
	"light block 25300001; or synthesized: 0-5 txs + metadata tx signed by the proposer named in the header) + one alteration of the provider's answer: metadata tx " +
	"re-signed by a non-proposer (same or forged root), root bytes altered under the old signature, second validly proposer-signed metadata tx with another root, " +
	"forged metadata tx appended / replacing / alone, metadata tx dropped / swapped / bit-flipped / re-encoded, list of another block, empty list; code under test = " +
	"what Core.fetchStateRootFromMetaTx does: verifyTransactions(list, light block) then stateRootFromBlockTxs(list); oracle = honest list yields the true root AND a " +
	"mutant is rejected OR (byte-identical list AND true root); non-trivial = mutant list from which stateRootFromBlockTxs alone extracts a root (structurally valid " +
	"metadata tx last) so that only the binding can reject it; distinct = hash of base and mutant list"

func TestC19StateRoot(t *testing.T) {
	rec := ev.New("C19", "TestC19StateRoot", rootRule,
		"stateRootFromMetaTx itself does not authenticate the metadata transaction (no signature or proposer check exists in the stateless package); the binding is the header's data hash over the whole list, so the composition is what is checked",
		"the proposer signature check of system transactions lives in the full node's ABCI mux (abci/system.go), i.e. it is enforced by the validators that signed the header")
	defer rec.Flush()
	setChainContext()
	fx, err := loadFixtures()
	if err != nil {
		ev.Infra(t, "fixtures: %v", err)
	}
	var recRoot hash.Hash
	if err := recRoot.UnmarshalBinary(fx.lb2.AppHash); err != nil {
		ev.Infra(t, "recorded app hash: %v", err)
	}
	recorded := &rootBase{name: "recorded(25300000)", txs: fx.txs, lb: fx.lb, root: recRoot, proposer: fx.lb.ProposerAddress}
	composite := func(txs [][]byte, lb *cmttypes.LightBlock) (root hash.Hash, err error, p any) {
		err, p = safely(func() error {
			if e := stateless.VerifVerifyTransactions(txs, lb); e != nil {
				return e
			}
			var e error
			root, e = stateless.VerifStateRootFromBlockTxs(txs)
			return e
		})
		return
	}
	var cur string
	ev.Trace = func() any { return cur }
	rapid.Check(t, func(t *rapid.T) {
		cur = ""
		var b *rootBase
		if rapid.IntRange(0, 3).Draw(t, "base") == 0 {
			b = recorded
		} else {
			b = genRootBase(t, "a-", 0)
		}
		other := genRootBase(t, "b-", rapid.SampledFrom([]int64{0, b.lb.Height, b.lb.Height + 1}).Draw(t, "otherHeight"))

		root, err, p := composite(b.txs, b.lb)
		if err != nil || p != nil {
			ev.Violation(t, "honest-rejected", "%s: honest transaction list rejected: %v %v", b.name, err, p)
		}
		if root != b.root {
			ev.Violation(t, "honest-stateroot", "%s: state root from the honest metadata transaction is %s, the next header's app hash is %s", b.name, root, b.root)
		}
		if isMeta, valid, byProp, r := metaTxInfo(b.txs[len(b.txs)-1], b.proposer); !isMeta || !valid || !byProp || r != b.root {
			ev.Infra(t, "%s: honest metadata tx: meta=%v validsig=%v byproposer=%v", b.name, isMeta, valid, byProp)
		}

		r := newPrng(rapid.Uint64().Draw(t, "mseed"))
		var forgedRoot hash.Hash
		copy(forgedRoot[:], r.bytes(32))
		n := len(b.txs)
		honestMeta := b.txs[n-1]
		m := cloneTxs(b.txs)
		ops := []string{"resign-nonproposer", "forge-root-nonproposer", "forge-root-keep-sig", "append-forged", "replace-forged", "only-forged", "drop-meta", "swap-meta",
			"bitflip-meta", "reencode-meta", "foreign-list", "empty", "forge-root-proposer-key", "bitflip-other"}
		op := pickString(t, "op", ops)
		_, _, _, honestRootInTx := metaTxInfo(honestMeta, b.proposer)
		var st transaction.SignedTransaction
		_ = lenient.Unmarshal(honestMeta, &st)
		var htx transaction.Transaction
		_ = lenient.Unmarshal(st.Blob, &htx)
		var hmeta consensus.BlockMetadata
		_ = lenient.Unmarshal(htx.Body, &hmeta)
		switch op {
		case "resign-nonproposer":
			m[n-1] = mkMetaTx(t, attackerKey, honestRootInTx, hmeta.EventsRoot)
		case "forge-root-nonproposer", "replace-forged":
			m[n-1] = mkMetaTx(t, attackerKey, forgedRoot, hmeta.EventsRoot)
		case "forge-root-keep-sig":
			k := bytes.Index(m[n-1], honestRootInTx[:])
			if k < 0 {
				rec.Discard("op-not-applicable:" + op)
				return
			}
			m[n-1][k+rapid.IntRange(0, 31).Draw(t, "k")] ^= byte(1) << uint(rapid.IntRange(0, 7).Draw(t, "bit"))
		case "forge-root-proposer-key":
			if !b.synth {
				rec.Discard("op-not-applicable:" + op)
				return
			}
			m[n-1] = mkMetaTx(t, proposerKey, forgedRoot, hmeta.EventsRoot)
		case "append-forged":
			m = append(m, mkMetaTx(t, attackerKey, forgedRoot, hmeta.EventsRoot))
		case "only-forged":
			m = [][]byte{mkMetaTx(t, attackerKey, forgedRoot, hmeta.EventsRoot)}
		case "drop-meta":
			m = m[:n-1]
		case "swap-meta":
			if n < 2 {
				rec.Discard("op-not-applicable:" + op)
				return
			}
			i := rapid.IntRange(0, n-2).Draw(t, "i")
			m[i], m[n-1] = m[n-1], m[i]
		case "bitflip-meta":
			m[n-1][rapid.IntRange(0, len(m[n-1])-1).Draw(t, "k")] ^= byte(1) << uint(rapid.IntRange(0, 7).Draw(t, "bit"))
		case "bitflip-other":
			if n < 2 {
				rec.Discard("op-not-applicable:" + op)
				return
			}
			i := rapid.IntRange(0, n-2).Draw(t, "i")
			if len(m[i]) == 0 {
				rec.Discard("op-not-applicable:" + op)
				return
			}
			m[i][rapid.IntRange(0, len(m[i])-1).Draw(t, "k")] ^= byte(1) << uint(rapid.IntRange(0, 7).Draw(t, "bit"))
		case "reencode-meta":
			// same signed transaction, map keys in non-canonical order
			var parts map[string]fxcbor.RawMessage
			if err := lenient.Unmarshal(honestMeta, &parts); err != nil || len(parts) != 2 {
				ev.Infra(t, "honest metadata tx as map: %v", err)
			}
			m[n-1] = rawMap([]rawEntry{{"untrusted_raw_value", parts["untrusted_raw_value"]}, {"signature", parts["signature"]}}, 0, 0)
			if bytes.Equal(m[n-1], honestMeta) {
				m[n-1] = rawMap([]rawEntry{{"signature", parts["signature"]}, {"untrusted_raw_value", parts["untrusted_raw_value"]}}, 1, 1)
			}
		case "foreign-list":
			m = cloneTxs(other.txs)
		case "empty":
			m = nil
		}
		cur = fmt.Sprintf("%s: %s", b.name, op)
		class := diffTxs(b.txs, m)
		if class == "" {
			rec.Discard("mutation-was-identity:" + op)
			return
		}
		// what extraction alone would hand out
		aloneRoot, aloneErr := stateless.VerifStateRootFromBlockTxs(m)
		structurallyValid := aloneErr == nil
		if structurallyValid && aloneRoot != b.root {
			rec.Label("extraction_alone_yields_forged_root")
		}
		if len(m) > 0 {
			if isMeta, valid, byProp, _ := metaTxInfo(m[len(m)-1], b.proposer); isMeta {
				rec.Label(fmt.Sprintf("last-tx:meta validsig=%v byproposer=%v", valid, byProp))
			} else {
				rec.Label("last-tx:not-a-metadata-tx")
			}
		}
		got, err, p := composite(m, b.lb)
		if p != nil {
			ev.Violation(t, "panic-stateRoot", "%s: panic %v", cur, p)
		}
		if err == nil {
			ev.Violation(t, "unbound-stateroot-metatx", "%s: the altered list (%s, %d txs) was ACCEPTED and yields state root %s (true root %s)", cur, class, len(m), got, b.root)
		}
		msg := err.Error()
		if i := strings.Index(msg, ":"); i > 0 {
			msg = msg[:i]
		}
		rec.Label("rejected:" + msg)
		rec.Label("op:" + op)
		var sample any
		if structurallyValid && rec.WantSample() {
			sample = map[string]any{"base": b.name, "op": op, "extraction_alone": aloneRoot.String(), "true_root": b.root.String(), "outcome": "rejected: " + err.Error()}
		}
		rec.Case(structurallyValid, ev.Fingerprint("root", txsKey(b.txs), txsKey(m), b.lb.Height), sample)
	})
}

// ------------------------------------------------------------------------------------------
// (e) next validator set (Core.GetValidators for a height one above the verified header)
// ------------------------------------------------------------------------------------------

type valBase struct {
	name   string
	vals   *consensus.Validators // honest answer for height lb.Height+1
	lb     *cmttypes.LightBlock  // its NextValidatorsHash binds the set
	honest *cmtproto.ValidatorSet
}

func decodeValsProto(raw []byte) (*cmtproto.ValidatorSet, error) {
	var pvs cmtproto.ValidatorSet
	if err := pvs.Unmarshal(raw); err != nil {
		return nil, err
	}
	// structural requirements every consumer has
	if _, err := cmttypes.ValidatorSetFromProto(&pvs); err != nil {
		return nil, err
	}
	return &pvs, nil
}

func newValBase(name string, vs *cmttypes.ValidatorSet, lb *cmttypes.LightBlock) (*valBase, error) {
	v, err := light.EncodeValidators(vs, lb.Height+1)
	if err != nil {
		return nil, err
	}
	pvs, err := decodeValsProto(v.Meta)
	if err != nil {
		return nil, err
	}
	return &valBase{name: name, vals: v, lb: lb, honest: pvs}, nil
}

func genValBase(t *rapid.T, label string) *valBase {
	r := newPrng(rapid.Uint64().Draw(t, label+"vseed"))
	n := rapid.IntRange(1, 6).Draw(t, label+"nvals")
	var vals []*cmttypes.Validator
	for i := 0; i < n; i++ {
		pk := cmted25519.PubKey(r.bytes(32))
		vals = append(vals, cmttypes.NewValidator(pk, int64(1+r.intn(1000))))
	}
	vs := cmttypes.NewValidatorSet(vals)
	for i := 0; i < r.intn(4); i++ {
		vs.IncrementProposerPriority(1)
	}
	h := rapid.SampledFrom([]int64{1, 5, 25300000}).Draw(t, label+"vheight")
	lb := &cmttypes.LightBlock{SignedHeader: &cmttypes.SignedHeader{Header: &cmttypes.Header{Height: h, NextValidatorsHash: vs.Hash()}}}
	b, err := newValBase(fmt.Sprintf("synth-vals(n=%d,h=%d)", n, h), vs, lb)
	if err != nil {
		ev.Infra(t, "synthesized validator set: %v", err)
	}
	return b
}

func pbValKey(v *cmtproto.Validator) (addr, pk []byte, power, prio int64) {
	if v == nil {
		return nil, nil, 0, 0
	}
	pkb, _ := v.PubKey.Marshal()
	return v.Address, pkb, v.VotingPower, v.ProposerPriority
}

// diffVals compares a validators answer with the honest one, field by field.
func diffVals(b *valBase, m *consensus.Validators) (decodable bool, why string, classes []string, detail string, reenc bool) {
	add := func(c, format string, args ...any) {
		for _, x := range classes {
			if x == c {
				return
			}
		}
		classes = append(classes, c)
		if detail == "" {
			detail = c + ": " + fmt.Sprintf(format, args...)
		}
	}
	if m.Height != b.vals.Height {
		add("validators-height", "%d -> %d", b.vals.Height, m.Height)
	}
	pvs, err := decodeValsProto(m.Meta)
	if err != nil {
		return false, err.Error(), classes, detail, false
	}
	h := b.honest
	if len(pvs.Validators) != len(h.Validators) {
		add("validators-count", "%d -> %d", len(h.Validators), len(pvs.Validators))
	} else {
		for i := range pvs.Validators {
			a1, k1, p1, r1 := pbValKey(h.Validators[i])
			a2, k2, p2, r2 := pbValKey(pvs.Validators[i])
			if !bytes.Equal(k1, k2) {
				add("validators-pubkey", "validator %d", i)
			}
			if !bytes.Equal(a1, a2) {
				add("validators-address", "validator %d", i)
			}
			if p1 != p2 {
				add("validators-power", "validator %d: %d -> %d", i, p1, p2)
			}
			if r1 != r2 {
				add("validators-priority", "validator %d: proposer priority %d -> %d", i, r1, r2)
			}
		}
	}
	a1, k1, p1, r1 := pbValKey(h.Proposer)
	a2, k2, p2, r2 := pbValKey(pvs.Proposer)
	if !bytes.Equal(a1, a2) || !bytes.Equal(k1, k2) || p1 != p2 || r1 != r2 {
		add("validators-proposer", "proposer %X(power %d, priority %d) -> %X(power %d, priority %d)", a1, p1, r1, a2, p2, r2)
	}
	// total_voting_power is recomputed by every decoder (ValidatorSetFromProto); the raw field has no reader
	return true, "", classes, detail, !bytes.Equal(m.Meta, b.vals.Meta)
}

func mutateVals(t *rapid.T, b, other *valBase) (m *consensus.Validators, op, desc string, ok bool) {
	m = &consensus.Validators{Height: b.vals.Height, Meta: clone(b.vals.Meta)}
	var pvs cmtproto.ValidatorSet
	if err := pvs.Unmarshal(b.vals.Meta); err != nil {
		ev.Infra(t, "honest validators: %v", err)
	}
	n := len(pvs.Validators)
	idx := func(l string) int { return rapid.IntRange(0, n-1).Draw(t, l) }
	op = pickString(t, "valop", []string{"height", "power", "pubkey", "pubkey+address", "address", "priority", "proposer-other", "proposer-fields", "total-power",
		"drop", "dup", "swap", "add", "raw-bit", "unknown-field", "other", "other-adapted", "truncate"})
	desc = op
	structured := true
	switch op {
	case "height":
		structured = false
		m.Height = rapid.SampledFrom([]int64{b.vals.Height + 1, b.vals.Height - 1, b.lb.Height, 0}).Draw(t, "h")
		desc = fmt.Sprintf("validators height %d -> %d", b.vals.Height, m.Height)
	case "power":
		i := idx("i")
		pvs.Validators[i].VotingPower += rapid.SampledFrom([]int64{1, -1, 1000}).Draw(t, "d")
		desc = fmt.Sprintf("validator %d voting power altered", i)
	case "pubkey", "pubkey+address":
		i := idx("i")
		pk := clone(pvs.Validators[i].PubKey.GetEd25519())
		pk[rapid.IntRange(0, 31).Draw(t, "k")] ^= byte(1) << uint(rapid.IntRange(0, 7).Draw(t, "bit"))
		npk, _ := cmtcryptoenc.PubKeyToProto(cmted25519.PubKey(pk))
		pvs.Validators[i].PubKey = npk
		if op == "pubkey+address" {
			pvs.Validators[i].Address = cmted25519.PubKey(pk).Address()
		}
		desc = fmt.Sprintf("validator %d public key bit flipped (%s)", i, op)
	case "address":
		i := idx("i")
		a := clone(pvs.Validators[i].Address)
		a[rapid.IntRange(0, len(a)-1).Draw(t, "k")] ^= 1
		pvs.Validators[i].Address = a
		desc = fmt.Sprintf("validator %d address bit flipped", i)
	case "priority":
		i := idx("i")
		pvs.Validators[i].ProposerPriority += rapid.SampledFrom([]int64{1, -1, 1 << 40}).Draw(t, "d")
		desc = fmt.Sprintf("validator %d proposer priority altered", i)
	case "proposer-other":
		if n < 2 {
			return nil, op, op, false
		}
		i := idx("i")
		if bytes.Equal(pvs.Validators[i].Address, pvs.Proposer.Address) {
			return nil, op, op, false
		}
		cp := *pvs.Validators[i]
		pvs.Proposer = &cp
		desc = fmt.Sprintf("proposer := validator %d", i)
	case "proposer-fields":
		cp := *pvs.Proposer
		if pickUniform(t, "which", 2) == 0 {
			cp.VotingPower++
		} else {
			cp.ProposerPriority--
		}
		pvs.Proposer = &cp
		desc = "proposer entry: power/priority altered"
	case "total-power":
		pvs.TotalVotingPower += rapid.SampledFrom([]int64{1, -1, 1 << 50}).Draw(t, "d")
		desc = "total_voting_power field altered"
	case "drop":
		if n < 2 {
			return nil, op, op, false
		}
		i := idx("i")
		pvs.Validators = append(pvs.Validators[:i:i], pvs.Validators[i+1:]...)
		desc = fmt.Sprintf("validator %d of %d dropped", i, n)
	case "dup":
		pvs.Validators = append(pvs.Validators, pvs.Validators[idx("i")])
		desc = "a validator appended again"
	case "swap":
		if n < 2 {
			return nil, op, op, false
		}
		i, j := idx("i"), idx("j")
		if i == j {
			return nil, op, op, false
		}
		pvs.Validators[i], pvs.Validators[j] = pvs.Validators[j], pvs.Validators[i]
		desc = fmt.Sprintf("validators %d and %d swapped", i, j)
	case "add":
		pk := cmted25519.PubKey(newPrng(rapid.Uint64().Draw(t, "newval")).bytes(32))
		ppk, _ := cmtcryptoenc.PubKeyToProto(pk)
		pvs.Validators = append(pvs.Validators, &cmtproto.Validator{Address: pk.Address(), PubKey: ppk, VotingPower: 1})
		desc = "a new validator appended"
	case "raw-bit":
		structured = false
		pos := rapid.IntRange(0, len(m.Meta)-1).Draw(t, "pos")
		bit := byte(1) << uint(rapid.IntRange(0, 7).Draw(t, "bit"))
		m.Meta[pos] ^= bit
		desc = fmt.Sprintf("validators meta byte %d of %d ^= 0x%02x", pos, len(m.Meta), bit)
	case "truncate":
		structured = false
		m.Meta = m.Meta[:len(m.Meta)-1-rapid.IntRange(0, len(m.Meta)-1).Draw(t, "k")]
		desc = "validators meta truncated"
	case "unknown-field":
		structured = false
		m.Meta = append(m.Meta, pbVarintField(15, 1, 0)...)
		desc = "validators meta + unknown protobuf field"
	case "other", "other-adapted":
		structured = false
		m = &consensus.Validators{Height: other.vals.Height, Meta: clone(other.vals.Meta)}
		desc = "validators answer of " + other.name
		if op == "other-adapted" {
			m.Height = b.vals.Height
			desc += " with the height adapted"
		}
	}
	if structured {
		raw, err := pvs.Marshal()
		if err != nil {
			ev.Infra(t, "marshal validators: %v", err)
		}
		m.Meta = raw
	}
	return m, op, desc, m.Height != b.vals.Height || !bytes.Equal(m.Meta, b.vals.Meta)
}

func checkValsMutant(t ev.Failer, rec *ev.Recorder, probe bool, b *valBase, m *consensus.Validators, desc string) (outcome string, nontrivial, counted bool) {
	decodable, why, classes, detail, reenc := diffVals(b, m)
	if decodable && len(classes) > 0 {
		nExcl, rest := 0, 0
		for _, c := range classes {
			if excluded("unbound-"+c, probe) {
				nExcl++
			} else {
				rest++
			}
		}
		if nExcl > 0 && rest == 0 {
			rec.Discard("excluded:unbound-validators")
			return "", false, false
		}
	}
	err, p := safely(func() error { return stateless.VerifVerifyNextValidators(m, b.lb) })
	if p != nil {
		ev.Violation(t, "panic-verifyNextValidators", "%s: panic %v on: %s", b.name, p, desc)
	}
	if err != nil {
		msg := err.Error()
		if i := strings.Index(msg, ":"); i > 0 {
			msg = msg[:i]
		}
		rec.Label("rejected:" + msg)
		return "rejected", decodable, true
	}
	if !decodable {
		ev.Violation(t, "accepted-undecodable", "%s: verifyNextValidators accepted an answer the independent decoder rejects (%s); mutation: %s", b.name, why, desc)
	}
	for _, c := range classes {
		if !excluded("unbound-"+c, probe) {
			ev.Violation(t, "unbound-"+c, "%s: verifyNextValidators ACCEPTED an answer that differs from the honest one in [%s] (first: %s); mutation: %s",
				b.name, strings.Join(classes, ","), detail, desc)
		}
	}
	if reenc {
		rec.Label("accepted_identical:reencoded-or-unread-field")
	} else {
		rec.Label("accepted_identical:no-op")
	}
	return "accepted-identical", true, true
}

const valsRule = "case = honest validators answer for height h+1 (recorded: validator set of light block 25300001 against light block 25300000; or synthesized: 1-6 ed25519 " +
	"validators, CometBFT proposer rotation, header NextValidatorsHash computed by CometBFT) encoded with the node's own EncodeValidators + one alteration: height, per-validator " +
	"voting power / public key (with and without a matching address) / address / proposer priority, proposer replaced by another member, proposer entry fields, " +
	"total_voting_power, drop/dup/swap/add validator, raw bit, truncation, unknown protobuf field, answer of another set (also with adapted height); oracle = honest verifies " +
	"AND mutant rejected OR field-wise identical under an independent protobuf decode (count, every validator's address, key, power, priority, the proposer entry); " +
	"non-trivial = mutant that still decodes to a structurally valid validator set; distinct = hash of base and mutant"

func TestC19Validators(t *testing.T) {
	rec := ev.New("C19", "TestC19Validators", valsRule,
		"total_voting_power of the encoded set is recomputed by every decoder (ValidatorSetFromProto) and has no reader; a change of only that raw field is counted as identical")
	defer rec.Flush()
	fx, err := loadFixtures()
	if err != nil {
		ev.Infra(t, "fixtures: %v", err)
	}
	recorded, err := newValBase("recorded(validators 25300001)", fx.lb2.ValidatorSet, fx.lb)
	if err != nil {
		ev.Infra(t, "recorded validators: %v", err)
	}
	var cur string
	ev.Trace = func() any { return cur }
	rapid.Check(t, func(t *rapid.T) {
		cur = ""
		var b *valBase
		if rapid.IntRange(0, 3).Draw(t, "base") == 0 {
			b = recorded
		} else {
			b = genValBase(t, "a-")
		}
		other := genValBase(t, "b-")
		if err, p := safely(func() error { return stateless.VerifVerifyNextValidators(b.vals, b.lb) }); err != nil || p != nil {
			ev.Violation(t, "honest-rejected", "%s: honest validators rejected: %v %v", b.name, err, p)
		}
		m, op, desc, ok := mutateVals(t, b, other)
		if !ok {
			rec.Discard("op-not-applicable:" + op)
			return
		}
		cur = b.name + ": " + desc
		outcome, nontrivial, counted := checkValsMutant(t, rec, false, b, m, desc)
		if !counted {
			return
		}
		rec.Label("op:" + op)
		var sample any
		if nontrivial && rec.WantSample() {
			sample = map[string]any{"base": b.name, "mutation": desc, "outcome": outcome}
		}
		rec.Case(nontrivial, ev.Fingerprint("vals", b.name, b.lb.NextValidatorsHash.Bytes(), m.Height, m.Meta), sample)
	})
}

// TestC19ValidatorsFields: deterministic minimal mutants of the recorded validator set, one shard per class.
func TestC19ValidatorsFields(t *testing.T) {
	rec := ev.New("C19", "TestC19ValidatorsFields",
		"deterministic single-field mutants of the recorded validator set 25300001 against light block 25300000: validator 0 proposer priority+1, proposer := another "+
			"member, validator 0 voting power+1, height+1, honest set against light block 25300001; oracle as in TestC19Validators; sharded by class")
	defer rec.Flush()
	fx, err := loadFixtures()
	if err != nil {
		ev.Infra(t, "fixtures: %v", err)
	}
	b, err := newValBase("recorded(validators 25300001)", fx.lb2.ValidatorSet, fx.lb)
	if err != nil {
		ev.Infra(t, "recorded validators: %v", err)
	}
	shard, _ := strconv.Atoi(os.Getenv("VERIF_SHARD"))
	nshards, _ := strconv.Atoi(os.Getenv("VERIF_NSHARDS"))
	if nshards == 0 {
		nshards = 1
	}
	if err := stateless.VerifVerifyNextValidators(b.vals, b.lb); err != nil {
		ev.Violation(t, "honest-rejected", "recorded validator set 25300001 rejected against light block 25300000: %v", err)
	}
	if err := stateless.VerifVerifyNextValidators(b.vals, fx.lb2); err == nil {
		ev.Violation(t, "unbound-validators-height", "validator set 25300001 accepted as the successor set of light block 25300001")
	}
	rec.Case(true, ev.Fingerprint("other-height"), "honest validators 25300001 against light block 25300001: rejected")
	muts := []struct {
		desc string
		f    func(pvs *cmtproto.ValidatorSet, m *consensus.Validators)
	}{
		{"validator 0: proposer priority + 1", func(pvs *cmtproto.ValidatorSet, _ *consensus.Validators) { pvs.Validators[0].ProposerPriority++ }},
		{"proposer := another member of the set", func(pvs *cmtproto.ValidatorSet, _ *consensus.Validators) {
			for _, v := range pvs.Validators {
				if !bytes.Equal(v.Address, pvs.Proposer.Address) {
					cp := *v
					pvs.Proposer = &cp
					return
				}
			}
		}},
		{"validator 0: voting power + 1", func(pvs *cmtproto.ValidatorSet, _ *consensus.Validators) { pvs.Validators[0].VotingPower++ }},
		{"height + 1", func(_ *cmtproto.ValidatorSet, m *consensus.Validators) { m.Height++ }},
	}
	// must-be-rejected mutants first, so that a reported finding does not hide them
	for _, i := range []int{2, 3, 0, 1} {
		mu := muts[i]
		if i%nshards != shard%nshards {
			continue
		}
		var pvs cmtproto.ValidatorSet
		if err := pvs.Unmarshal(b.vals.Meta); err != nil {
			ev.Infra(t, "honest validators: %v", err)
		}
		m := &consensus.Validators{Height: b.vals.Height}
		mu.f(&pvs, m)
		m.Meta, _ = pvs.Marshal()
		outcome, nontrivial, counted := checkValsMutant(t, rec, true, b, m, mu.desc)
		if !counted {
			continue
		}
		rec.Case(nontrivial, ev.Fingerprint(mu.desc), map[string]any{"mutation": mu.desc, "outcome": outcome})
	}
}
