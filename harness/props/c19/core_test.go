package c19

import (
	"context"
	"fmt"
	"os"
	"path/filepath"
	"testing"
	"time"

	cmtdb "github.com/cometbft/cometbft-db"
	cmtlight "github.com/cometbft/cometbft/light"
	cmtlightdb "github.com/cometbft/cometbft/light/store/db"
	cmttypes "github.com/cometbft/cometbft/types"
	"github.com/libp2p/go-libp2p/core"
	"pgregory.net/rapid"

	"github.com/oasisprotocol/oasis-core/go/common/cbor"
	consensus "github.com/oasisprotocol/oasis-core/go/consensus/api"
	cmtapi "github.com/oasisprotocol/oasis-core/go/consensus/cometbft/api"
	cdb "github.com/oasisprotocol/oasis-core/go/consensus/cometbft/db"
	"github.com/oasisprotocol/oasis-core/go/consensus/cometbft/light"
	"github.com/oasisprotocol/oasis-core/go/consensus/cometbft/stateless"

	"verifharness/ev"
)

// A stateless core as a node builds it (stateless.NewCore) on top of a REAL light client whose trusted store was filled
// by the harness and which has no reachable light-block provider, plus an untrusted provider that serves whatever the
// case wants. This reaches the parts of the backend that decide WHETHER something gets verified at all.

type offlineP2P struct{}

func (offlineP2P) BlockPeer(core.PeerID)                      {}
func (offlineP2P) RegisterProtocol(core.ProtocolID, int, int) {}
func (offlineP2P) Host() core.Host                            { return nil }

type resultsProvider struct {
	consensus.Backend
	results *consensus.BlockResults
}

func (p *resultsProvider) GetBlockResults(context.Context, int64) (*consensus.BlockResults, error) {
	return p.results, nil
}

func offlineLightClient(ctx context.Context, dir string, trusted ...*cmttypes.LightBlock) (*light.Client, error) {
	fn := filepath.Join(dir, "consensus/light")
	if err := os.MkdirAll(filepath.Dir(fn), 0o700); err != nil {
		return nil, err
	}
	db, err := cdb.New(fn, false)
	if err != nil {
		return nil, err
	}
	store := cmtlightdb.New(cmtdb.NewPrefixDB(db, []byte{}), "")
	for _, lb := range trusted {
		if err := store.SaveLightBlock(lb); err != nil {
			return nil, err
		}
	}
	if err := db.Close(); err != nil {
		return nil, err
	}
	latest := trusted[len(trusted)-1]
	return light.NewClient(ctx, latest.ChainID+"00000000000000", offlineP2P{}, light.Config{
		GenesisDocument: &cmttypes.GenesisDoc{ChainID: latest.ChainID},
		TrustOptions:    cmtlight.TrustOptions{Period: 24 * time.Hour, Height: latest.Height, Hash: latest.Hash()},
		DataDir:         dir,
	})
}

const coreResultsRule = "case = stateless.NewCore on a real light client (trusted store pre-filled, no reachable light-block provider) and an untrusted provider; the recorded block results of height H " +
	"are served honestly or altered (code, data, gas wanted/used of one transaction, a dropped / duplicated result, another height); store shapes: {H, H+1} (the next header is trusted) and {H, later} (H is below the " +
	"latest trusted height but header H+1 cannot be obtained). oracle = GetBlockResults(H) hands results out only when they are bound to a verified header: with H+1 trusted the honest results are returned and every " +
	"alteration is rejected; with H+1 unobtainable and H below the latest trusted height NOTHING may be returned. non-trivial = an altered response, or the unobtainable-next-header shape; distinct = shape + alteration"

// TestC19CoreResults: block results through the real core and light client.
func TestC19CoreResults(t *testing.T) {
	rec := ev.New("C19", "TestC19CoreResults", coreResultsRule,
		"the later header of the {H, later} shape is the recorded header of H+1 re-labelled H+2: the light client does not re-verify what is already in its trusted store")
	defer rec.Flush()
	fx, err := loadFixtures()
	if err != nil {
		ev.Infra(t, "fixtures: %v", err)
	}
	ctx, cancel := context.WithTimeout(context.Background(), 5*time.Minute)
	defer cancel()
	base, err := os.MkdirTemp(os.Getenv("TMPDIR"), "c19core")
	if err != nil {
		ev.Infra(t, "tmp: %v", err)
	}
	defer os.RemoveAll(base)
	later := *fx.lb2
	sh := *fx.lb2.SignedHeader
	hdr := *fx.lb2.Header
	hdr.Height = fx.lb.Height + 2
	sh.Header = &hdr
	later.SignedHeader = &sh
	clients := map[string]*light.Client{}
	for name, blocks := range map[string][]*cmttypes.LightBlock{"next-trusted": {fx.lb, fx.lb2}, "next-unobtainable": {fx.lb, &later}} {
		c, err := offlineLightClient(ctx, filepath.Join(base, name), blocks...)
		if err != nil {
			ev.Infra(t, "light client %s: %v", name, err)
		}
		clients[name] = c
	}
	var cur string
	ev.Trace = func() any { return cur }
	rapid.Check(t, func(t *rapid.T) {
		shape := rapid.SampledFrom([]string{"next-trusted", "next-trusted", "next-unobtainable"}).Draw(t, "shape")
		alter := rapid.SampledFrom([]string{"none", "code", "data", "gas-used", "gas-wanted", "drop", "dup", "height"}).Draw(t, "alter")
		var meta cmtapi.BlockResultsMeta
		if err := cbor.Unmarshal(fx.results.Meta, &meta); err != nil || len(meta.TxsResults) == 0 {
			ev.Infra(t, "recorded results: %v", err)
		}
		i := rapid.IntRange(0, len(meta.TxsResults)-1).Draw(t, "tx")
		resp := &consensus.BlockResults{Height: fx.results.Height}
		switch alter {
		case "code":
			meta.TxsResults[i].Code ^= 1
		case "data":
			meta.TxsResults[i].Data = append(append([]byte{}, meta.TxsResults[i].Data...), 1)
		case "gas-used":
			meta.TxsResults[i].GasUsed++
		case "gas-wanted":
			meta.TxsResults[i].GasWanted++
		case "drop":
			meta.TxsResults = append(meta.TxsResults[:i:i], meta.TxsResults[i+1:]...)
		case "dup":
			meta.TxsResults = append(meta.TxsResults[:i+1:i+1], meta.TxsResults[i:]...)
		case "height":
			resp.Height += int64(rapid.SampledFrom([]int{-1, 1, 2}).Draw(t, "dh"))
		}
		resp.Meta = cbor.Marshal(meta)
		if alter == "none" {
			resp.Meta = fx.results.Meta
		}
		cur = fmt.Sprintf("shape=%s alteration=%s tx=%d", shape, alter, i)
		c := stateless.NewCore(&resultsProvider{results: resp}, clients[shape], stateless.Config{})
		got, err := c.GetBlockResults(ctx, fx.lb.Height)
		rec.Label(fmt.Sprintf("%s:%s:returned=%v", shape, alter, err == nil))
		switch {
		case shape == "next-trusted" && alter == "none":
			if err != nil {
				ev.Violation(t, "honest-results-rejected", "the recorded block results of height %d are rejected although header %d is trusted: %v", fx.lb.Height, fx.lb2.Height, err)
			}
		case err == nil:
			ev.Violation(t, "unbound-results", "%s: GetBlockResults(%d) returned results (height %d, %d bytes) that are not bound to a verified header", cur, fx.lb.Height, got.Height, len(got.Meta))
		}
		rec.Case(alter != "none" || shape != "next-trusted", ev.Fingerprint(shape, alter, i, resp.Height), cur)
	})
}
