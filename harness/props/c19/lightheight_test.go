package c19

import (
	"context"
	"errors"
	"fmt"
	"os"
	"path/filepath"
	"testing"
	"time"

	cmtlight "github.com/cometbft/cometbft/light"
	cmttypes "github.com/cometbft/cometbft/types"
	"github.com/libp2p/go-libp2p/core"
	"pgregory.net/rapid"

	consensus "github.com/oasisprotocol/oasis-core/go/consensus/api"
	"github.com/oasisprotocol/oasis-core/go/common/pubsub"
	"github.com/oasisprotocol/oasis-core/go/consensus/cometbft/light"
	"github.com/oasisprotocol/oasis-core/go/consensus/cometbft/stateless"
	p2plight "github.com/oasisprotocol/oasis-core/go/consensus/p2p/light"
	"github.com/oasisprotocol/oasis-core/go/p2p/rpc"

	"verifharness/ev"
)

// The light-block path of the stateless node: stateless.Core -> light.Client (real CometBFT light client) -> light.Provider
// -> P2P peers. The harness plays the peers (verif hook SetPeersForVerif swaps the RPC client of the providers): every
// response is built from the two RECORDED, genuinely signed light blocks, so everything the light client verifies
// cryptographically is authentic - what varies is for which requested height a peer hands which block out.

type fakeFeedback struct{ id core.PeerID }

func (fakeFeedback) RecordSuccess()         {}
func (fakeFeedback) RecordFailure()         {}
func (fakeFeedback) RecordBadPeer()         {}
func (f fakeFeedback) PeerID() core.PeerID { return f.id }

type fakeSub struct{}

func (fakeSub) Close() {}

type fakePeers struct{ ids []core.PeerID }

func (fakePeers) AddPeer(core.PeerID)                      {}
func (fakePeers) RemovePeer(core.PeerID)                   {}
func (fakePeers) RecordSuccess(core.PeerID, time.Duration) {}
func (fakePeers) RecordFailure(core.PeerID, time.Duration) {}
func (fakePeers) RecordBadPeer(core.PeerID)                {}
func (f fakePeers) GetBestPeers(...rpc.BestPeersOption) []core.PeerID {
	return f.ids
}

func (fakePeers) WatchUpdates() (<-chan *rpc.PeerUpdate, pubsub.ClosableSubscription, error) {
	return make(chan *rpc.PeerUpdate), fakeSub{}, nil
}

// peerScript decides what the peers answer to GetLightBlock(height).
type peerScript struct {
	fx *fixtures
	// strategy: "honest" | "relabel-next" (a genuine block of ANOTHER height inside a wrapper that carries the requested
	// height) | "wrapper-off" (genuine block of the requested height, wrapper height off by one) | "relabel-for-primary-only"
	strategy string
	calls    int
}

var errNoSuchBlock = errors.New("peer: no such light block")

func (s *peerScript) genuine(h int64) *cmttypes.LightBlock {
	switch h {
	case s.fx.lb.Height:
		return s.fx.lb
	case s.fx.lb2.Height:
		return s.fx.lb2
	}
	return nil
}

func (s *peerScript) lightBlock(peer core.PeerID, height int64) (*consensus.LightBlock, error) {
	s.calls++
	g := s.genuine(height)
	relabel := func() (*consensus.LightBlock, error) {
		if g != nil {
			return light.EncodeLightBlock(g, height)
		}
		// the requested height does not exist at this peer: hand out the genuine NEXT block under the requested height
		return light.EncodeLightBlock(s.fx.lb2, height)
	}
	switch s.strategy {
	case "honest":
		if g == nil {
			return nil, errNoSuchBlock
		}
		return light.EncodeLightBlock(g, height)
	case "relabel-next":
		return relabel()
	case "relabel-for-primary-only":
		if string(peer) == "peer-0" {
			return relabel()
		}
		if g == nil {
			return nil, errNoSuchBlock
		}
		return light.EncodeLightBlock(g, height)
	case "wrapper-off":
		if g == nil {
			return nil, errNoSuchBlock
		}
		return light.EncodeLightBlock(g, height+1)
	}
	return nil, errNoSuchBlock
}

type fakeRPC struct{ s *peerScript }

func (f fakeRPC) Call(_ context.Context, peer core.PeerID, method string, body, rsp any, _ ...rpc.CallOption) (rpc.PeerFeedback, error) {
	switch method {
	case p2plight.MethodGetLightBlock:
		h, ok := body.(int64)
		if !ok {
			return nil, fmt.Errorf("fake peer: unexpected request body %T", body)
		}
		lb, err := f.s.lightBlock(peer, h)
		if err != nil {
			return nil, err
		}
		*(rsp.(*consensus.LightBlock)) = *lb
		return fakeFeedback{peer}, nil
	}
	return nil, rpc.ErrMethodNotSupported
}

func (f fakeRPC) CallOne(ctx context.Context, peers []core.PeerID, method string, body, rsp any, opts ...rpc.CallOption) (rpc.PeerFeedback, error) {
	if len(peers) == 0 {
		return nil, errNoSuchBlock
	}
	return f.Call(ctx, peers[0], method, body, rsp, opts...)
}

func (fakeRPC) CallMulti(context.Context, []core.PeerID, string, any, any, ...rpc.CallMultiOption) ([]any, []rpc.PeerFeedback, error) {
	return nil, nil, rpc.ErrMethodNotSupported
}
func (fakeRPC) Close(core.PeerID) error              { return nil }
func (fakeRPC) CloseIdle(core.PeerID) error          { return nil }
func (fakeRPC) RegisterListener(rpc.ClientListener)   {}
func (fakeRPC) UnregisterListener(rpc.ClientListener) {}

// deadProvider: the untrusted full-node provider of the core is unreachable in these cases (only the light-block path is
// under test).
type deadProvider struct{ consensus.Backend }

func (deadProvider) GetValidators(context.Context, int64) (*consensus.Validators, error) {
	return nil, errNoSuchBlock
}

const lightHeightRule = "case = stateless.NewCore on a REAL light client (trusted store holds the recorded, genuinely signed light block of height H; trusting period covers it) whose three P2P peers are played by the harness " +
	"and only ever hand out the two recorded genuine light blocks (H, H+1); per case a requested height X in {H, H+1, H+2, H+3, H+7, H+1000} and a peer strategy: honest (unknown heights are 'not found'), relabel-next (a genuine block " +
	"of ANOTHER height inside a response that carries the requested height), relabel-for-primary-only (witnesses honest), wrapper-off (right block, response height off by one). oracle = Core.GetLightBlock(X) / GetValidators(X) / " +
	"Client.VerifyLightBlockAt(X) return data only when it IS the verified header of height X: a successful answer must carry height X and equal the recorded block of height X; the honest strategy must succeed for H and H+1. " +
	"non-trivial = a non-honest strategy or a height the peers do not have; distinct = (X-H, strategy)"

// TestC19LightBlockHeight: provider responses altered in HEIGHT on the light-block path.
func TestC19LightBlockHeight(t *testing.T) {
	rec := ev.New("C19", "TestC19LightBlockHeight", lightHeightRule,
		"the light client's trusting period is set to 100 years so that the recorded (old) headers are inside it; verification time is the wall clock, as in the node")
	defer rec.Flush()
	fx, err := loadFixtures()
	if err != nil {
		ev.Infra(t, "fixtures: %v", err)
	}
	base, err := os.MkdirTemp(os.Getenv("TMPDIR"), "c19lh")
	if err != nil {
		ev.Infra(t, "tmp: %v", err)
	}
	defer os.RemoveAll(base)
	var cur string
	ev.Trace = func() any { return cur }
	n := 0
	rapid.Check(t, func(t *rapid.T) {
		n++
		dx := int64(rapid.SampledFrom([]int{0, 1, 2, 3, 7, 1000}).Draw(t, "dx"))
		strategy := rapid.SampledFrom([]string{"honest", "relabel-next", "relabel-next", "relabel-for-primary-only", "wrapper-off"}).Draw(t, "strategy")
		getter := rapid.SampledFrom([]string{"GetLightBlock", "GetValidators", "VerifyLightBlockAt"}).Draw(t, "getter")
		x := fx.lb.Height + dx
		cur = fmt.Sprintf("requested=H+%d strategy=%s getter=%s", dx, strategy, getter)
		ctx, cancel := context.WithTimeout(context.Background(), 60*time.Second)
		defer cancel()
		dir := filepath.Join(base, fmt.Sprintf("case%d", n))
		defer os.RemoveAll(dir)
		lc, err := light.NewClient(ctx, fx.lb.ChainID+"00000000000000", offlineP2P{}, light.Config{
			GenesisDocument: &cmttypes.GenesisDoc{ChainID: fx.lb.ChainID},
			TrustOptions:    cmtlight.TrustOptions{Period: 100 * 365 * 24 * time.Hour, Height: fx.lb.Height, Hash: fx.lb.Hash()},
			DataDir:         dir,
		})
		if err != nil {
			ev.Infra(t, "light client: %v", err)
		}
		script := &peerScript{fx: fx, strategy: strategy}
		lc.SetPeersForVerif(fakeRPC{script}, fakePeers{ids: []core.PeerID{"peer-0", "peer-1", "peer-2"}})
		c := stateless.NewCore(deadProvider{}, lc, stateless.Config{})

		var gotHeight int64
		var gotHash []byte
		var gerr error
		switch getter {
		case "GetLightBlock":
			var lb *consensus.LightBlock
			if lb, gerr = c.GetLightBlock(ctx, x); gerr == nil {
				gotHeight = lb.Height
				clb, derr := light.DecodeLightBlock(lb)
				if derr != nil {
					ev.Violation(t, "lightblock-undecodable", "%s: returned light block does not decode: %v", cur, derr)
				}
				if clb.Height != lb.Height {
					ev.Violation(t, "lightblock-height-unbound", "%s: returned light block says height %d but contains the header of height %d", cur, lb.Height, clb.Height)
				}
				gotHash = clb.Hash()
			}
		case "GetValidators":
			var v *consensus.Validators
			if v, gerr = c.GetValidators(ctx, x); gerr == nil {
				gotHeight = v.Height
			}
		default:
			var clb *cmttypes.LightBlock
			if clb, gerr = lc.VerifyLightBlockAt(ctx, x); gerr == nil {
				gotHeight = clb.Height
				gotHash = clb.Hash()
			}
		}
		rec.Label(fmt.Sprintf("%s:H+%d:returned=%v", strategy, dx, gerr == nil))
		if errors.Is(gerr, context.DeadlineExceeded) {
			rec.Discard("timeout")
			return
		}
		want := script.genuine(x)
		switch {
		case gerr == nil && gotHeight != x:
			ev.Violation(t, "lightblock-other-height", "%s: asked for height %d, was handed (verified) data of height %d", cur, x, gotHeight)
		case gerr == nil && want == nil:
			ev.Violation(t, "lightblock-invented", "%s: height %d does not exist at any peer, yet data was returned for it", cur, x)
		case gerr == nil && gotHash != nil && string(gotHash) != string(want.Hash()):
			ev.Violation(t, "lightblock-wrong-header", "%s: returned header %x is not the recorded header %x of height %d", cur, gotHash, want.Hash(), x)
		case gerr != nil && strategy == "honest" && want != nil && getter != "GetValidators":
			ev.Violation(t, "honest-lightblock-rejected", "%s: honest peers, genuine block of height %d rejected: %v", cur, x, gerr)
		}
		rec.Case(strategy != "honest" || want == nil, ev.Fingerprint(dx, strategy, getter), cur)
	})
}
