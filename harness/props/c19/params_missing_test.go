package c19

import (
	"context"
	"fmt"
	"os"
	"path/filepath"
	"testing"
	"time"

	cmtproto "github.com/cometbft/cometbft/proto/tendermint/types"
	cmtlight "github.com/cometbft/cometbft/light"
	cmttypes "github.com/cometbft/cometbft/types"
	"github.com/libp2p/go-libp2p/core"

	consensus "github.com/oasisprotocol/oasis-core/go/consensus/api"
	"github.com/oasisprotocol/oasis-core/go/consensus/api/transaction"
	"github.com/oasisprotocol/oasis-core/go/consensus/cometbft/light"
	"github.com/oasisprotocol/oasis-core/go/consensus/cometbft/stateless"
	consensusGenesis "github.com/oasisprotocol/oasis-core/go/consensus/genesis"
	p2plight "github.com/oasisprotocol/oasis-core/go/consensus/p2p/light"
	"github.com/oasisprotocol/oasis-core/go/p2p/rpc"

	"verifharness/ev"
)

// metaVariants: CometBFT consensus parameters as a provider / peer may serialize them with sub-messages left out.
func metaVariants() map[string][]byte {
	full := cmttypes.DefaultConsensusParams().ToProto()
	enc := func(p cmtproto.ConsensusParams) []byte { b, _ := p.Marshal(); return b }
	out := map[string][]byte{"empty": {}}
	p := full
	p.Block = nil
	out["no-block"] = enc(p)
	p = full
	p.Evidence = nil
	out["no-evidence"] = enc(p)
	p = full
	p.Validator = nil
	out["no-validator"] = enc(p)
	p = full
	p.Version = nil
	out["no-version"] = enc(p)
	return out
}

type paramsRPC struct {
	backwardsRPC
	meta []byte
}

func (f paramsRPC) Call(ctx context.Context, peer core.PeerID, method string, body, rsp any, opts ...rpc.CallOption) (rpc.PeerFeedback, error) {
	if method == p2plight.MethodGetParameters {
		h, _ := body.(int64)
		*(rsp.(*consensus.Parameters)) = consensus.Parameters{Height: h, Meta: f.meta}
		return fakeFeedback{peer}, nil
	}
	return f.backwardsRPC.Call(ctx, peer, method, body, rsp, opts...)
}

func (f paramsRPC) CallOne(ctx context.Context, peers []core.PeerID, method string, body, rsp any, opts ...rpc.CallOption) (rpc.PeerFeedback, error) {
	if len(peers) == 0 {
		return nil, errNoSuchBlock
	}
	return f.Call(ctx, peers[0], method, body, rsp, opts...)
}

// TestC19ParametersMissingFields is the regression of "fix: consensus parameters with missing sections from a provider or
// peer crash the light client and the stateless node": both places that decode the CometBFT consensus parameters of an
// untrusted response handed the decoded protobuf to cmttypes.ConsensusParamsFromProto, which dereferences the four
// sub-messages. An empty Meta (or one without block / evidence / validator / version section) is a valid protobuf and
// made the node panic instead of rejecting the response. Reported by a round-9 seeding author (reading), reproduced here.
func TestC19ParametersMissingFields(t *testing.T) {
	rec := ev.New("C19", "TestC19ParametersMissingFields", "deterministic regression cases: consensus parameters whose CometBFT part (Meta) is empty or lacks one of its four sections, (a) verified by the stateless core against a header, (b) served by the P2P peers to light.Client.VerifyParametersAt; each must be REJECTED with an error", "")
	defer rec.Flush()
	fx, err := loadFixtures()
	if err != nil {
		ev.Infra(t, "fixtures: %v", err)
	}
	cmt := cmttypes.DefaultConsensusParams()
	p := consensusGenesis.Parameters{MaxTxSize: 32768, MaxBlockSize: 1 << 20, MaxEvidenceSize: 1 << 16, StateCheckpointInterval: 100, GasCosts: transaction.Costs{consensusGenesis.GasOpTxByte: 1}}
	fac := &fakeParamsFactory{byHeight: map[int64]*consensusGenesis.Parameters{5: &p}}
	lb := &cmttypes.LightBlock{SignedHeader: &cmttypes.SignedHeader{Header: &cmttypes.Header{Height: 5, ConsensusHash: cmt.Hash()}}}
	c := stateless.NewCore(nil, nil, stateless.Config{})
	c.SetQueriers(nil, fac, nil)
	ctx, cancel := context.WithTimeout(context.Background(), 60*time.Second)
	defer cancel()
	base, err := os.MkdirTemp(os.Getenv("TMPDIR"), "c19pm")
	if err != nil {
		ev.Infra(t, "tmp: %v", err)
	}
	defer os.RemoveAll(base)
	i := 0
	for name, meta := range metaVariants() {
		i++
		// (a) the stateless core
		verr, panicked := safely(func() error {
			return stateless.VerifVerifyParameters(ctx, c, &consensus.Parameters{Height: 5, Parameters: p, Meta: meta}, lb)
		})
		rec.Case(true, ev.Fingerprint("core", name), fmt.Sprintf("core %s: err=%v panic=%v", name, verr, panicked))
		if panicked != nil {
			ev.Violation(t, "panic-verifyParameters", "stateless core: provider parameters with Meta %q (%d bytes) make verifyParameters panic: %v", name, len(meta), panicked)
		}
		if verr == nil {
			ev.Violation(t, "unbound-parameters", "stateless core: provider parameters with Meta %q accepted", name)
		}
		// (b) the light client, parameters served by the peers
		lc, err := light.NewClient(ctx, fx.lb.ChainID+"00000000000000", offlineP2P{}, light.Config{
			GenesisDocument: &cmttypes.GenesisDoc{ChainID: fx.lb.ChainID},
			TrustOptions:    cmtlight.TrustOptions{Period: 100 * 365 * 24 * time.Hour, Height: fx.lb.Height, Hash: fx.lb.Hash()},
			DataDir:         filepath.Join(base, fmt.Sprintf("lc%d", i)),
		})
		if err != nil {
			ev.Infra(t, "light client: %v", err)
		}
		script := &backwardsScript{fx: fx, strategy: "honest", calls: map[int64]int{}}
		lc.SetPeersForVerif(paramsRPC{backwardsRPC{script}, meta}, fakePeers{ids: []core.PeerID{"peer-0", "peer-1", "peer-2"}})
		perr, panicked := safely(func() error {
			_, err := lc.VerifyParametersAt(ctx, fx.lb.Height)
			return err
		})
		rec.Case(true, ev.Fingerprint("light", name), fmt.Sprintf("light client %s: err=%v panic=%v", name, perr, panicked))
		if panicked != nil {
			ev.Violation(t, "panic-verifyParameters", "light client: peer parameters with Meta %q (%d bytes) make VerifyParametersAt panic: %v", name, len(meta), panicked)
		}
		if perr == nil {
			ev.Violation(t, "unbound-parameters", "light client: peer parameters with Meta %q accepted", name)
		}
	}
}
