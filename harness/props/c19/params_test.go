package c19

import (
	"bytes"
	"context"
	"fmt"
	"testing"

	cmtproto "github.com/cometbft/cometbft/proto/tendermint/types"
	cmttypes "github.com/cometbft/cometbft/types"
	"pgregory.net/rapid"

	"github.com/oasisprotocol/oasis-core/go/common/cbor"
	consensus "github.com/oasisprotocol/oasis-core/go/consensus/api"
	"github.com/oasisprotocol/oasis-core/go/consensus/api/transaction"
	cmtconsensus "github.com/oasisprotocol/oasis-core/go/consensus/cometbft/consensus"
	"github.com/oasisprotocol/oasis-core/go/consensus/cometbft/stateless"
	consensusGenesis "github.com/oasisprotocol/oasis-core/go/consensus/genesis"

	"verifharness/ev"
)

const paramsRule = "case = a generated chain of 3-8 heights; every height has Oasis consensus parameters (min gas price, max tx size, gas costs, checkpoint interval ... " +
	"changing at some heights, as a governance parameter change does) held by a stand-in for the proof-verified state query, and CometBFT consensus parameters (block max bytes / max gas, changing rarely) whose " +
	"hash is the light header's ConsensusHash; ONE stateless core answers a generated sequence of 4-20 parameter requests for arbitrary heights, each with an honest provider response or one altered in " +
	"height, in a single Oasis parameter, in the CometBFT parameters (Meta), or replaced by the honest response of ANOTHER height (stale replay, with and without the height field adjusted). " +
	"oracle = a response is accepted iff its height is the requested one, its Meta hashes to that header's ConsensusHash and its parameters are CBOR-identical to the state at that height - independent " +
	"of what the core verified before. non-trivial = sequence with an accepted honest response followed later by a rejected replay of it for a height whose header has the SAME ConsensusHash but other " +
	"on-chain parameters; distinct = hash of chain and requests"

type fakeParamsQuery struct{ p *consensusGenesis.Parameters }

func (q fakeParamsQuery) ChainContext(context.Context) (string, error) { return "c19", nil }
func (q fakeParamsQuery) ConsensusParameters(context.Context) (*consensusGenesis.Parameters, error) {
	cp := *q.p
	return &cp, nil
}

type fakeParamsFactory struct {
	byHeight map[int64]*consensusGenesis.Parameters
	calls    int
}

func (f *fakeParamsFactory) QueryAt(_ context.Context, height int64) (cmtconsensus.Query, error) {
	f.calls++
	p, ok := f.byHeight[height]
	if !ok {
		return nil, fmt.Errorf("no state at height %d", height)
	}
	return fakeParamsQuery{p}, nil
}

// TestC19Parameters: consensus parameters handed out by the stateless backend are bound to the requested height.
func TestC19Parameters(t *testing.T) {
	rec := ev.New("C19", "TestC19Parameters", paramsRule,
		"the proof-verified state query at a height (light query factory: verified state root + Merkle proofs, property C04) is replaced by a table of the true parameters per height",
		"the light header is reduced to the two fields verifyParameters reads: Height and ConsensusHash")
	defer rec.Flush()
	ctx := context.Background()
	var trace []string
	ev.Trace = func() any { return trace }
	rapid.Check(t, func(t *rapid.T) {
		trace = nil
		n := rapid.IntRange(3, 8).Draw(t, "heights")
		fac := &fakeParamsFactory{byHeight: map[int64]*consensusGenesis.Parameters{}}
		type hinfo struct {
			lb   *cmttypes.LightBlock
			meta []byte
			p    *consensusGenesis.Parameters
		}
		chain := map[int64]*hinfo{}
		cur := consensusGenesis.Parameters{MaxTxSize: 32768, MaxBlockSize: 1 << 20, MaxBlockGas: 0, MaxEvidenceSize: 1 << 16, MinGasPrice: 0,
			StateCheckpointInterval: 100, GasCosts: transaction.Costs{consensusGenesis.GasOpTxByte: 1}}
		cmt := cmttypes.DefaultConsensusParams()
		for h := int64(1); h <= int64(n); h++ {
			if h > 1 && rapid.IntRange(0, 1).Draw(t, "oasisChange") == 0 {
				switch rapid.IntRange(0, 3).Draw(t, "which") {
				case 0:
					cur.MinGasPrice = uint64(rapid.IntRange(0, 5).Draw(t, "minGasPrice"))
				case 1:
					cur.MaxTxSize = uint64(rapid.SampledFrom([]int{4096, 32768, 65536}).Draw(t, "maxTxSize"))
				case 2:
					cur.GasCosts = transaction.Costs{consensusGenesis.GasOpTxByte: transaction.Gas(rapid.IntRange(0, 3).Draw(t, "gasTxByte"))}
				default:
					cur.StateCheckpointInterval = uint64(rapid.SampledFrom([]int{100, 1000}).Draw(t, "ckpt"))
				}
			}
			if h > 1 && rapid.IntRange(0, 4).Draw(t, "cmtChange") == 0 {
				cp := *cmt
				cp.Block.MaxBytes = int64(rapid.SampledFrom([]int{1 << 20, 1 << 21, 1 << 22}).Draw(t, "maxBytes"))
				cmt = &cp
			}
			p := cur
			p.GasCosts = transaction.Costs{}
			for k, v := range cur.GasCosts {
				p.GasCosts[k] = v
			}
			pb := cmt.ToProto()
			meta, err := pb.Marshal()
			if err != nil {
				ev.Infra(t, "marshal params: %v", err)
			}
			lb := &cmttypes.LightBlock{SignedHeader: &cmttypes.SignedHeader{Header: &cmttypes.Header{Height: h, ConsensusHash: cmt.Hash()}}}
			chain[h] = &hinfo{lb: lb, meta: meta, p: &p}
			fac.byHeight[h] = &p
			trace = append(trace, fmt.Sprintf("h%d: consensusHash=%x oasis=%x", h, lb.ConsensusHash[:4], cbor.Marshal(&p)))
		}
		core := stateless.NewCore(nil, nil, stateless.Config{})
		core.SetQueriers(nil, fac, nil)
		honest := func(h int64) *consensus.Parameters {
			return &consensus.Parameters{Height: h, Parameters: *chain[h].p, Meta: append([]byte{}, chain[h].meta...)}
		}
		accepted := map[int64]bool{}
		nontrivial := false
		var fp []any
		nreq := rapid.IntRange(4, 20).Draw(t, "requests")
		for i := 0; i < nreq; i++ {
			h := int64(rapid.IntRange(1, n).Draw(t, "reqHeight"))
			resp := honest(h)
			kinds := []string{"honest", "honest", "height", "field", "meta", "meta-missing-section", "replay", "replay", "replay-raw"}
			if !ev.Excluded(sigParamsMetaUnhashed) {
				kinds = append(kinds, "meta-unhashed")
			}
			kind := rapid.SampledFrom(kinds).Draw(t, "kind")
			src := h
			switch kind {
			case "height":
				resp.Height = int64(rapid.IntRange(0, n+1).Draw(t, "wrongHeight"))
			case "field":
				switch rapid.IntRange(0, 2).Draw(t, "field") {
				case 0:
					resp.Parameters.MinGasPrice++
				case 1:
					resp.Parameters.MaxTxSize ^= 1
				default:
					resp.Parameters.GasCosts = transaction.Costs{consensusGenesis.GasOpTxByte: resp.Parameters.GasCosts[consensusGenesis.GasOpTxByte] + 1}
				}
			case "meta":
				cp := *cmttypes.DefaultConsensusParams()
				cp.Block.MaxGas = int64(rapid.IntRange(1, 1000).Draw(t, "maxGas"))
				pb := cp.ToProto()
				resp.Meta, _ = pb.Marshal()
			case "meta-missing-section":
				// a valid protobuf that is empty or leaves one of the four sections out
				mv := metaVariants()
				names := []string{"empty", "no-block", "no-evidence", "no-validator", "no-version"}
				resp.Meta = mv[names[rapid.IntRange(0, len(names)-1).Draw(t, "missingSection")]]
			case "meta-unhashed":
				resp.Meta = alterUnhashedMeta(resp.Meta, rapid.IntRange(0, 2).Draw(t, "unhashedField"))
			case "replay", "replay-raw":
				// the honest answer of another height, preferably one this core has already verified
				src = int64(rapid.IntRange(1, n).Draw(t, "replayOf"))
				resp = honest(src)
				if kind == "replay" {
					resp.Height = h
				}
			}
			want := kind != "meta-missing-section" && resp.Height == h && bytes.Equal(cmttypes.ConsensusParamsFromProto(mustParams(resp.Meta)).Hash(), chain[h].lb.ConsensusHash) &&
				bytes.Equal(cbor.Marshal(&resp.Parameters), cbor.Marshal(chain[h].p))
			err, panicked := safely(func() error { return stateless.VerifVerifyParameters(ctx, core, resp, chain[h].lb) })
			if panicked != nil {
				ev.Violation(t, "panic-verifyParameters", "provider parameters (%s) make verifyParameters panic: %v; trace=%v", kind, panicked, trace)
			}
			trace = append(trace, fmt.Sprintf("request h%d: %s (from h%d) -> err=%v, want accept=%v", h, kind, src, err, want))
			fp = append(fp, h, kind, src, resp.Height)
			rec.Label(fmt.Sprintf("%s:accepted=%v", kind, err == nil))
			if want && err != nil {
				ev.Violation(t, "honest-parameters-rejected", "parameters bound to the requested height %d were rejected: %v; trace=%v", h, err, trace)
			}
			if kind == "meta-unhashed" && err == nil {
				ev.Violation(t, sigParamsMetaUnhashed, "CometBFT consensus parameters with an altered evidence / validator / version field were accepted for height %d: only block.max_bytes and block.max_gas are covered by the header's consensus hash; trace=%v", h, trace)
			}
			if !want && err == nil {
				ev.Violation(t, "unbound-parameters", "a %s response (taken from height %d, height field %d) was accepted for height %d although the on-chain parameters there differ; trace=%v", kind, src, resp.Height, h, trace)
			}
			if err == nil {
				accepted[h] = true
			}
			if kind == "replay" && src != h && accepted[src] && !want && bytes.Equal(chain[src].lb.ConsensusHash, chain[h].lb.ConsensusHash) {
				nontrivial = true
			}
		}
		var sample any
		if nontrivial && rec.WantSample() {
			sample = append([]string{}, trace...)
		}
		rec.Case(nontrivial, ev.Fingerprint(fp...), sample)
	})
}

func mustParams(meta []byte) (pb cmtproto.ConsensusParams) {
	_ = pb.Unmarshal(meta)
	return pb
}

// sigParamsMetaUnhashed: fields of the CometBFT consensus parameters that the provider hands over (Parameters.Meta) and
// the header's ConsensusHash does not cover (it hashes block.max_bytes and block.max_gas only).
const sigParamsMetaUnhashed = "unbound-parameters-meta"

func alterUnhashedMeta(meta []byte, which int) []byte {
	pb := mustParams(meta)
	cp := cmttypes.ConsensusParamsFromProto(pb)
	switch which {
	case 0:
		cp.Evidence.MaxAgeNumBlocks++
	case 1:
		cp.Validator.PubKeyTypes = append(append([]string{}, cp.Validator.PubKeyTypes...), cmttypes.ABCIPubKeyTypeSecp256k1)
	default:
		cp.Version.App++
	}
	out := cp.ToProto()
	b, _ := out.Marshal()
	return b
}

// TestC19KFParametersMeta: deterministic probe of the finding.
func TestC19KFParametersMeta(t *testing.T) {
	rec := ev.New("C19", "TestC19KFParametersMeta", "deterministic probe of finding "+sigParamsMetaUnhashed+": honest parameters of a height with evidence.max_age_num_blocks+1 / an added validator key type / version.app+1 in the CometBFT parameters", "")
	defer rec.Flush()
	cmt := cmttypes.DefaultConsensusParams()
	pb := cmt.ToProto()
	meta, _ := pb.Marshal()
	p := consensusGenesis.Parameters{MaxTxSize: 32768, MaxBlockSize: 1 << 20, MaxEvidenceSize: 1 << 16, StateCheckpointInterval: 100, GasCosts: transaction.Costs{consensusGenesis.GasOpTxByte: 1}}
	fac := &fakeParamsFactory{byHeight: map[int64]*consensusGenesis.Parameters{5: &p}}
	lb := &cmttypes.LightBlock{SignedHeader: &cmttypes.SignedHeader{Header: &cmttypes.Header{Height: 5, ConsensusHash: cmt.Hash()}}}
	core := stateless.NewCore(nil, nil, stateless.Config{})
	core.SetQueriers(nil, fac, nil)
	ctx := context.Background()
	if err := stateless.VerifVerifyParameters(ctx, core, &consensus.Parameters{Height: 5, Parameters: p, Meta: meta}, lb); err != nil {
		ev.Infra(t, "honest parameters rejected: %v", err)
	}
	var accepted []string
	for i, name := range []string{"evidence.max_age_num_blocks+1", "validator.pub_key_types+secp256k1", "version.app+1"} {
		err := stateless.VerifVerifyParameters(ctx, core, &consensus.Parameters{Height: 5, Parameters: p, Meta: alterUnhashedMeta(meta, i)}, lb)
		rec.Case(true, ev.Fingerprint(name), fmt.Sprintf("%s: accepted=%v", name, err == nil))
		if err == nil {
			accepted = append(accepted, name)
		}
	}
	if len(accepted) > 0 {
		ev.Violation(t, sigParamsMetaUnhashed, "provider parameters with altered CometBFT fields accepted: %v", accepted)
	}
}
