package c19

import (
	"context"
	"fmt"
	"os"
	"path/filepath"
	"testing"
	"time"

	abci "github.com/cometbft/cometbft/abci/types"

	"github.com/oasisprotocol/oasis-core/go/common/cbor"
	consensus "github.com/oasisprotocol/oasis-core/go/consensus/api"
	cmtapi "github.com/oasisprotocol/oasis-core/go/consensus/cometbft/api"
	"github.com/oasisprotocol/oasis-core/go/consensus/cometbft/stateless"

	"verifharness/ev"
)

type countProvider struct {
	consensus.Backend
	txs     [][]byte
	results *consensus.BlockResults
}

func (p *countProvider) GetTransactions(context.Context, int64) ([][]byte, error) { return p.txs, nil }
func (p *countProvider) GetBlockResults(context.Context, int64) (*consensus.BlockResults, error) {
	return p.results, nil
}

// TestC19ResultsCountMismatch is the regression of "fix: more block results than transactions from the provider crash the
// stateless node" (found by TestC19CoreSession once the provider could add or drop a result; named by authors of rounds 6
// and 9): at the latest trusted height block results cannot be verified, and a response with one result more than the
// block has transactions made GetTransactionsWithResults index out of range.
func TestC19ResultsCountMismatch(t *testing.T) {
	rec := ev.New("C19", "TestC19ResultsCountMismatch", "deterministic regression cases: stateless core at the latest trusted height H, provider serves the recorded transactions of H and block results with one result more / one fewer; GetTransactionsWithResults(H) returns an error or an answer, never panics", "")
	defer rec.Flush()
	fx, err := loadFixtures()
	if err != nil {
		ev.Infra(t, "fixtures: %v", err)
	}
	ctx, cancel := context.WithTimeout(context.Background(), time.Minute)
	defer cancel()
	base, err := os.MkdirTemp(os.Getenv("TMPDIR"), "c19cnt")
	if err != nil {
		ev.Infra(t, "tmp: %v", err)
	}
	defer os.RemoveAll(base)
	lc, err := offlineLightClient(ctx, filepath.Join(base, "lc"), fx.lb)
	if err != nil {
		ev.Infra(t, "light client: %v", err)
	}
	var meta cmtapi.BlockResultsMeta
	if err := cbor.Unmarshal(fx.results.Meta, &meta); err != nil || len(meta.TxsResults) < 2 {
		ev.Infra(t, "recorded results: %v", err)
	}
	for _, delta := range []int{1, -1} {
		m := meta
		if delta > 0 {
			m.TxsResults = append(append([]*abci.ResponseDeliverTx{}, meta.TxsResults...), meta.TxsResults[0])
		} else {
			m.TxsResults = append([]*abci.ResponseDeliverTx{}, meta.TxsResults[:len(meta.TxsResults)-1]...)
		}
		prov := &countProvider{txs: fx.txs, results: &consensus.BlockResults{Height: fx.results.Height, Meta: cbor.Marshal(m)}}
		c := stateless.NewCore(prov, lc, stateless.Config{})
		gerr, panicked := safely(func() error {
			_, err := c.GetTransactionsWithResults(ctx, fx.lb.Height)
			return err
		})
		rec.Case(true, ev.Fingerprint("count", delta), fmt.Sprintf("results %+d: err=%v panic=%v", delta, gerr, panicked))
		if panicked != nil {
			ev.Violation(t, "panic-results-count", "GetTransactionsWithResults with %d results for %d transactions panics: %v", len(m.TxsResults), len(fx.txs), panicked)
		}
	}
}
