package c19

import (
	"bytes"
	"context"
	"fmt"
	"os"
	"path/filepath"
	"testing"
	"time"

	cmtlight "github.com/cometbft/cometbft/light"
	cmttypes "github.com/cometbft/cometbft/types"
	"github.com/libp2p/go-libp2p/core"
	"pgregory.net/rapid"

	"github.com/oasisprotocol/oasis-core/go/common/cbor"
	consensus "github.com/oasisprotocol/oasis-core/go/consensus/api"
	cmtapi "github.com/oasisprotocol/oasis-core/go/consensus/cometbft/api"
	"github.com/oasisprotocol/oasis-core/go/consensus/cometbft/light"
	"github.com/oasisprotocol/oasis-core/go/consensus/cometbft/stateless"

	"verifharness/ev"
)

// A SESSION on one stateless core: several queries for the recorded height H, the untrusted full-node provider answering
// each call honestly or with an alteration, while the light client's trusted head moves from H to H+1 at a generated point.
// Anything the core remembers between calls (verified state roots, results hashes, whatever a change adds) must never let
// data out that is not bound to a verified header at the moment it is handed to the caller.

type sessionProvider struct {
	consensus.Backend
	fx *fixtures
	// per call
	results *consensus.BlockResults
	txs     [][]byte
	blk     *consensus.Block
	calls   map[string]int
	// asked: the heights the core asked the provider about during the current call
	asked       []int64
	latest      int64
	latestFlips bool
	latestCalls int
}

func (p *sessionProvider) GetBlockResults(_ context.Context, h int64) (*consensus.BlockResults, error) {
	p.calls["results"]++
	p.asked = append(p.asked, h)
	if h != p.fx.lb.Height {
		// the provider has something to say about every height: the same results, labelled with the height asked for
		return &consensus.BlockResults{Height: h, Meta: p.results.Meta}, nil
	}
	return p.results, nil
}

func (p *sessionProvider) GetTransactions(_ context.Context, h int64) ([][]byte, error) {
	p.calls["txs"]++
	p.asked = append(p.asked, h)
	return p.txs, nil
}

func (p *sessionProvider) GetBlock(_ context.Context, h int64) (*consensus.Block, error) {
	p.calls["block"]++
	p.asked = append(p.asked, h)
	return p.blk, nil
}

// GetLatestHeight: the chain head as the provider reports it; with latestFlips it moves between consecutive calls
// (a new block arrived), which is what happens all the time on a live network.
func (p *sessionProvider) GetLatestHeight(context.Context) (int64, error) {
	p.latestCalls++
	if p.latestFlips && p.latestCalls%2 == 1 {
		return p.fx.lb.Height, nil
	}
	if p.latestFlips {
		return p.fx.lb2.Height, nil
	}
	return p.latest, nil
}

func resultsKey(meta *cmtapi.BlockResultsMeta) string {
	var b bytes.Buffer
	for _, r := range meta.TxsResults {
		fmt.Fprintf(&b, "%d/%x/%d/%d;", r.Code, r.Data, r.GasWanted, r.GasUsed)
	}
	return b.String()
}

const sessionRule = "case = ONE stateless.NewCore on a real light client (trusted store starts with the recorded light block H; the harness plays honest P2P peers that have H and H+1) used for a session of 3-9 calls: " +
	"GetBlockResults(H), GetTransactionsWithResults(H), GetTransactions(H), GetBlock(H), StateRoot(H), StateRoot(H-1) - the untrusted provider answers each call with the recorded data or an alteration of it (a result code / data / gas, " +
	"a dropped result, a transaction byte, the block's state root or hash) - and, at a generated point, the light client verifies H+1 (the trusted head moves past H). oracle = whatever the core remembers between calls, " +
	"data handed out is bound to a verified header AT THAT MOMENT: transactions, block and state root always equal the recorded ones when a call succeeds; block results equal the recorded ones whenever H is below the " +
	"trusted head (at the head they are unverifiable by design and only the height is checked); honest answers are never rejected once verifiable. non-trivial = an altered answer was given at the head and the same " +
	"kind of call is repeated after the head moved; distinct = the call/alteration sequence"

// TestC19CoreSession: provider data across several calls on the same core while the trusted head advances.
func TestC19CoreSession(t *testing.T) {
	rec := ev.New("C19", "TestC19CoreSession", sessionRule,
		"trusting period 100 years (recorded headers are old); verification time is the wall clock, as in the node")
	defer rec.Flush()
	fx, err := loadFixtures()
	if err != nil {
		ev.Infra(t, "fixtures: %v", err)
	}
	var genuineMeta cmtapi.BlockResultsMeta
	if err := cbor.Unmarshal(fx.results.Meta, &genuineMeta); err != nil || len(genuineMeta.TxsResults) == 0 {
		ev.Infra(t, "recorded results: %v", err)
	}
	genuineResults := resultsKey(&genuineMeta)
	base, err := os.MkdirTemp(os.Getenv("TMPDIR"), "c19ses")
	if err != nil {
		ev.Infra(t, "tmp: %v", err)
	}
	defer os.RemoveAll(base)
	var trace []string
	ev.Trace = func() any { return trace }
	n := 0
	rapid.Check(t, func(t *rapid.T) {
		n++
		trace = nil
		ctx, cancel := context.WithTimeout(context.Background(), 120*time.Second)
		defer cancel()
		dir := filepath.Join(base, fmt.Sprintf("case%d", n))
		defer os.RemoveAll(dir)
		lc, err := light.NewClient(ctx, fx.lb.ChainID+"00000000000000", offlineP2P{}, light.Config{
			GenesisDocument: &cmttypes.GenesisDoc{ChainID: fx.lb.ChainID},
			TrustOptions:    cmtlight.TrustOptions{Period: 100 * 365 * 24 * time.Hour, Height: fx.lb.Height, Hash: fx.lb.Hash()},
			DataDir:         dir,
		})
		if err != nil {
			ev.Infra(t, "light client: %v", err)
		}
		lc.SetPeersForVerif(fakeRPC{&peerScript{fx: fx, strategy: "honest"}}, fakePeers{ids: []core.PeerID{"peer-0", "peer-1", "peer-2"}})
		prov := &sessionProvider{fx: fx, calls: map[string]int{}}
		c := stateless.NewCore(prov, lc, stateless.Config{})
		H := fx.lb.Height
		// the head is pinned at H first: make the client load its trusted store
		if _, err := lc.VerifyLightBlockAt(ctx, H); err != nil {
			ev.Infra(t, "trusted block H not available: %v", err)
		}

		steps := rapid.IntRange(3, 9).Draw(t, "steps")
		advanceAt := rapid.IntRange(0, steps).Draw(t, "advanceAt")
		alteredAtHead := map[string]bool{}
		nontrivial := false
		var fp []any
		for s := 0; s < steps; s++ {
			if s == advanceAt {
				if _, err := lc.VerifyLightBlockAt(ctx, H+1); err != nil {
					ev.Violation(t, "honest-lightblock-rejected", "genuine light block H+1 from honest peers rejected: %v", err)
				}
				trace = append(trace, "head -> H+1")
			}
			head, err := lc.LastTrustedHeight()
			if err != nil {
				ev.Infra(t, "head: %v", err)
			}
			kind := rapid.SampledFrom([]string{"results", "results", "txresults", "txs", "block", "stateroot", "stateroot-prev", "latest-txresults"}).Draw(t, "kind")
			alter := rapid.SampledFrom([]string{"none", "none", "a", "b", "c", "d", "e"}).Draw(t, "alter")
			fp = append(fp, kind, alter, head-H)
			// provider answers for this call
			meta := genuineMeta
			meta.TxsResults = append(meta.TxsResults[:0:0], genuineMeta.TxsResults...)
			i := rapid.IntRange(0, len(meta.TxsResults)-1).Draw(t, "idx")
			prov.results = fx.results
			prov.txs = fx.txs
			prov.blk = fx.blk
			prov.asked = nil
			prov.latest = H
			prov.latestFlips = false
			altered := ""
			switch {
			case alter == "none":
			case kind == "results" || kind == "txresults":
				r := *meta.TxsResults[i]
				switch alter {
				case "d":
					// one result MORE than the block has transactions
					meta.TxsResults = append(meta.TxsResults, meta.TxsResults[i])
					altered = "an extra result"
				case "e":
					// one result fewer
					meta.TxsResults = append(meta.TxsResults[:i:i], meta.TxsResults[i+1:]...)
					altered = "a dropped result"
					i = 0
				case "a":
					r.Code ^= 1
					altered = "result code"
				case "b":
					r.GasUsed++
					altered = "gas used"
				default:
					r.Data = append(append([]byte{}, r.Data...), 7)
					altered = "result data"
				}
				if alter != "d" && alter != "e" {
					meta.TxsResults[i] = &r
				}
				prov.results = &consensus.BlockResults{Height: fx.results.Height, Meta: cbor.Marshal(meta)}
			case kind == "txs" || kind == "stateroot":
				j := rapid.IntRange(0, len(fx.txs)-1).Draw(t, "txidx")
				if alter == "c" {
					j = len(fx.txs) - 1 // the block metadata transaction (carries the state root)
				}
				txs := append([][]byte{}, fx.txs...)
				tx := append([]byte{}, txs[j]...)
				tx[len(tx)/2] ^= 0x01
				txs[j] = tx
				prov.txs = txs
				altered = fmt.Sprintf("tx %d byte", j)
			case kind == "block":
				b := *fx.blk
				switch alter {
				case "a":
					b.StateRoot.Hash[3] ^= 1
					altered = "block state root"
				case "b":
					b.Hash[0] ^= 1
					altered = "block hash"
				default:
					b.Time = b.Time.Add(time.Second)
					altered = "block time"
				}
				prov.blk = &b
			}
			desc := fmt.Sprintf("step %d: %s(H) provider=%s head=H+%d", s, kind, map[bool]string{true: "altered " + altered, false: "honest"}[altered != ""], head-H)
			trace = append(trace, desc)
			if altered != "" && head == H {
				alteredAtHead[kind] = true
			}
			if head > H && alteredAtHead[kind] {
				nontrivial = true
			}
			fail := func(sig, format string, args ...any) {
				ev.Violation(t, sig, "%s: %s; session=%v", desc, fmt.Sprintf(format, args...), trace)
			}
			switch kind {
			case "latest-txresults":
				// "latest" is resolved by the core; whatever it resolves to, ONE response is about ONE height: every
				// request the core makes to the provider while serving the call names the same height
				switch rapid.IntRange(0, 2).Draw(t, "latestMode") {
				case 0:
					prov.latest = H
				case 1:
					prov.latest = H + 1
				default:
					prov.latestFlips = true
				}
				tr, gerr := c.GetTransactionsWithResults(ctx, consensus.HeightLatest)
				rec.Label(fmt.Sprintf("latest-txresults:head-moves=%v:returned=%v", prov.latestFlips, gerr == nil))
				if gerr == nil {
					for _, h := range prov.asked {
						if h != prov.asked[0] {
							fail("mixed-heights", "one GetTransactionsWithResults(latest) response was assembled from provider data of different heights %v", prov.asked)
						}
					}
					if len(prov.asked) > 0 && prov.asked[0] == H {
						for k := range tr.Transactions {
							if k >= len(fx.txs) || !bytes.Equal(tr.Transactions[k], fx.txs[k]) {
								fail("unbound-txs", "transaction %d differs from the recorded one", k)
							}
						}
					}
				}
			case "results", "txresults":
				var got *cmtapi.BlockResultsMeta
				var gerr error
				if kind == "results" {
					var r *consensus.BlockResults
					if r, gerr = c.GetBlockResults(ctx, H); gerr == nil {
						if r.Height != H {
							fail("unbound-results", "results of height %d returned for height %d", r.Height, H)
						}
						var m cmtapi.BlockResultsMeta
						if err := cbor.Unmarshal(r.Meta, &m); err != nil {
							fail("unbound-results", "returned results do not decode: %v", err)
						}
						got = &m
					}
				} else {
					var tr *consensus.TransactionsWithResults
					var panicked any
					gerr, panicked = safely(func() error {
						var err error
						tr, err = c.GetTransactionsWithResults(ctx, H)
						return err
					})
					if panicked != nil {
						fail("panic-results-count", "GetTransactionsWithResults panics on the provider's answer (%s): %v", altered, panicked)
					}
					if gerr == nil {
						if len(tr.Transactions) != len(fx.txs) {
							fail("unbound-txs", "%d transactions returned, block has %d", len(tr.Transactions), len(fx.txs))
						}
						for k := range tr.Transactions {
							if !bytes.Equal(tr.Transactions[k], fx.txs[k]) {
								fail("unbound-txs", "transaction %d differs from the recorded one", k)
							}
						}
						if head > H {
							if len(tr.Results) != len(genuineMeta.TxsResults) {
								fail("unbound-results", "%d results returned for a block with %d, although H is below the trusted head", len(tr.Results), len(genuineMeta.TxsResults))
							}
							for k, r := range tr.Results {
								g := genuineMeta.TxsResults[k]
								if r.Error.Code != g.Code || r.GasUsed != uint64(g.GasUsed) {
									fail("unbound-results", "result %d (code %d gas %d) differs from the recorded one (code %d gas %d) although H is below the trusted head", k, r.Error.Code, r.GasUsed, g.Code, g.GasUsed)
								}
							}
						}
					}
				}
				rec.Label(fmt.Sprintf("%s:altered=%v:verifiable=%v:returned=%v", kind, altered != "", head > H, gerr == nil))
				if head > H {
					if gerr == nil && got != nil && resultsKey(got) != genuineResults {
						fail("unbound-results", "block results differing from the recorded ones were handed out although H is below the trusted head")
					}
					if gerr != nil && altered == "" {
						fail("honest-results-rejected", "honest results rejected below the trusted head: %v", gerr)
					}
				}
			case "txs":
				txs, gerr := c.GetTransactions(ctx, H)
				rec.Label(fmt.Sprintf("txs:altered=%v:returned=%v", altered != "", gerr == nil))
				if gerr == nil {
					if len(txs) != len(fx.txs) {
						fail("unbound-txs", "%d transactions returned, block has %d", len(txs), len(fx.txs))
					}
					for k := range txs {
						if !bytes.Equal(txs[k], fx.txs[k]) {
							fail("unbound-txs", "transaction %d differs from the recorded one", k)
						}
					}
				} else if altered == "" {
					fail("honest-txs-rejected", "honest transactions rejected: %v", gerr)
				}
			case "block":
				blk, gerr := c.GetBlock(ctx, H)
				rec.Label(fmt.Sprintf("block:altered=%v:returned=%v", altered != "", gerr == nil))
				if gerr == nil {
					if blk.Height != fx.blk.Height || blk.Hash != fx.blk.Hash || !blk.Time.Equal(fx.blk.Time) || blk.StateRoot != fx.blk.StateRoot || !bytes.Equal(blk.Meta, fx.blk.Meta) {
						fail("unbound-block", "a block differing from the recorded one was handed out")
					}
				} else if altered == "" {
					fail("honest-block-rejected", "honest block rejected: %v", gerr)
				}
			case "stateroot-prev":
				// the state after block H-1 is what the trusted header H commits to; whatever the core remembers from
				// resolving it (header H also commits to the RESULTS of H-1) must not be taken for something about H
				root, gerr := c.StateRoot(ctx, H-1)
				rec.Label(fmt.Sprintf("stateroot-prev:returned=%v", gerr == nil))
				if gerr == nil {
					if root.Version != uint64(H-1) || !bytes.Equal(root.Hash[:], fx.lb.AppHash) {
						fail("unbound-stateroot", "state root %s (version %d) for H-1 differs from the app hash %x of the recorded header H", root.Hash, root.Version, fx.lb.AppHash)
					}
				} else {
					fail("honest-stateroot-rejected", "state root of H-1, committed to by the trusted header H, not served: %v", gerr)
				}
			default:
				root, gerr := c.StateRoot(ctx, H)
				rec.Label(fmt.Sprintf("stateroot:altered=%v:returned=%v", altered != "", gerr == nil))
				if gerr == nil {
					// the state after block H is what header H+1 commits to (its AppHash)
					if root.Version != uint64(H) || !bytes.Equal(root.Hash[:], fx.lb2.AppHash) {
						fail("unbound-stateroot", "state root %s (version %d) differs from the app hash %x of the recorded header H+1", root.Hash, root.Version, fx.lb2.AppHash)
					}
				}
			}
		}
		rec.Case(nontrivial, ev.Fingerprint(fp...), trace)
	})
}
