package c19

import (
	"context"
	"fmt"
	beacon "github.com/oasisprotocol/oasis-core/go/beacon/api"
	"github.com/oasisprotocol/oasis-core/go/common/crypto/hash"
	cmtbeacon "github.com/oasisprotocol/oasis-core/go/consensus/cometbft/beacon"
	"os"
	"path/filepath"
	"strings"
	"sync"
	"testing"
	"time"

	"pgregory.net/rapid"

	"github.com/oasisprotocol/oasis-core/go/common/cbor"
	"github.com/oasisprotocol/oasis-core/go/common/pubsub"
	consensus "github.com/oasisprotocol/oasis-core/go/consensus/api"
	"github.com/oasisprotocol/oasis-core/go/consensus/cometbft/stateless"

	"verifharness/ev"
)

// The PUSH path of the stateless node: Core.Serve follows the untrusted provider's block stream and hands every block on
// to the WatchBlocks subscribers (and to GetStatus). The harness plays the provider: it announces genuine and altered
// blocks and answers GetBlock (should the core ask again) from a script of genuine and altered blocks.

type watchProvider struct {
	consensus.Backend
	stream chan *consensus.Block

	mu      sync.Mutex
	refetch []*consensus.Block // answers to GetBlock, in order; the genuine block when exhausted
	genuine *consensus.Block
	asked   int
}

type nopSub struct{}

func (nopSub) Close() {}

func (p *watchProvider) WatchBlocks(context.Context) (<-chan *consensus.Block, pubsub.ClosableSubscription, error) {
	return p.stream, nopSub{}, nil
}

func (p *watchProvider) GetBlock(_ context.Context, _ int64) (*consensus.Block, error) {
	p.mu.Lock()
	defer p.mu.Unlock()
	p.asked++
	if len(p.refetch) == 0 {
		return cloneBlock(p.genuine), nil
	}
	b := p.refetch[0]
	p.refetch = p.refetch[1:]
	if b == nil {
		return nil, fmt.Errorf("provider: no such block")
	}
	return b, nil
}

func cloneBlock(b *consensus.Block) *consensus.Block {
	var c consensus.Block
	if err := cbor.Unmarshal(cbor.Marshal(b), &c); err != nil {
		panic(err)
	}
	c.Time = b.Time
	return &c
}

var watchAlterations = []string{"genuine", "hash", "time", "state-root", "state-root-version", "height+1", "meta-header", "meta-garbage"}

func alterBlock(genuine *consensus.Block, how string, at int) *consensus.Block {
	b := cloneBlock(genuine)
	switch how {
	case "hash":
		b.Hash[at%len(b.Hash)] ^= 0x01
	case "time":
		b.Time = b.Time.Add(time.Duration(1+at%5) * time.Second)
	case "state-root":
		b.StateRoot.Hash[at%len(b.StateRoot.Hash)] ^= 0x80
	case "state-root-version":
		b.StateRoot.Version++
	case "height+1":
		b.Height++
	case "meta-header":
		var mv metaView
		if err := lenient.Unmarshal(b.Meta, &mv); err == nil && len(mv.Header) > 0 {
			mv.Header = clone(mv.Header)
			mv.Header[at%len(mv.Header)] ^= 0x04
			b.Meta = cbor.Marshal(mv)
		}
	case "meta-garbage":
		b.Meta = []byte{0xa1, 0x61, 0x78, 0x01}
	}
	return b
}

const watchRule = "case = ONE stateless.NewCore on a real light client whose trusted store holds the recorded light blocks H and H+1, Core.Serve running, one WatchBlocks subscriber; the untrusted provider's block stream " +
	"announces 1-4 blocks, each the recorded block of H or an alteration of it (hash, time, state root hash/version, height H+1 with H's contents, a header byte inside the metadata, undecodable metadata), and its GetBlock " +
	"answers (in case the core asks again for an announced height) follow a script of 0-5 genuine / altered / failing answers. oracle = every block the subscriber receives is field-for-field the recorded block of H under the " +
	"independent decoder of TestC19BlockMutants (an announcement that does not verify may stop the watcher or be skipped, it is never handed on); genuine announcements that precede the first altered one are awaited (a missing one is counted, not a violation: C19 is a safety property). " +
	"non-trivial = at least one altered announcement; distinct = announcement + script sequence. Deliveries are awaited by count (genuine prefix) plus a grace period of 150 ms for surplus deliveries: a missed surplus delivery can only hide a violation, never raise one"

// TestC19Watcher: the block watcher never hands an unverified block to subscribers.
func TestC19Watcher(t *testing.T) {
	rec := ev.New("C19", "TestC19Watcher", watchRule, "the watcher is allowed to stop at the first announcement that fails verification (that is what the node does)")
	defer rec.Flush()
	fx, err := loadFixtures()
	if err != nil {
		ev.Infra(t, "fixtures: %v", err)
	}
	p0, err := newPair("recorded", fx.blk, fx.lb)
	if err != nil {
		ev.Infra(t, "pair: %v", err)
	}
	base, err := os.MkdirTemp(os.Getenv("TMPDIR"), "c19watch")
	if err != nil {
		ev.Infra(t, "tmp: %v", err)
	}
	defer os.RemoveAll(base)
	root, cancelAll := context.WithCancel(context.Background())
	defer cancelAll()
	client, err := offlineLightClient(root, filepath.Join(base, "lc"), fx.lb, fx.lb2)
	if err != nil {
		ev.Infra(t, "light client: %v", err)
	}
	var trace []string
	ev.Trace = func() any { return trace }
	rapid.Check(t, func(t *rapid.T) {
		trace = nil
		nAnn := rapid.IntRange(1, 4).Draw(t, "announcements")
		var anns []*consensus.Block
		var annKinds []string
		firstAltered := -1
		for i := 0; i < nAnn; i++ {
			how := rapid.SampledFrom(watchAlterations).Draw(t, "announce")
			if i == 0 && rapid.IntRange(0, 2).Draw(t, "firstGenuine") == 0 {
				how = "genuine"
			}
			anns = append(anns, alterBlock(fx.blk, how, rapid.IntRange(0, 63).Draw(t, "at")))
			annKinds = append(annKinds, how)
			if how != "genuine" && firstAltered < 0 {
				firstAltered = i
			}
		}
		prov := &watchProvider{stream: make(chan *consensus.Block), genuine: fx.blk}
		var scriptKinds []string
		for i, n := 0, rapid.IntRange(0, 5).Draw(t, "refetches"); i < n; i++ {
			how := rapid.SampledFrom(append([]string{"error"}, watchAlterations...)).Draw(t, "refetch")
			scriptKinds = append(scriptKinds, how)
			if how == "error" {
				prov.refetch = append(prov.refetch, nil)
			} else {
				prov.refetch = append(prov.refetch, alterBlock(fx.blk, how, rapid.IntRange(0, 63).Draw(t, "rat")))
			}
		}
		trace = append(trace, fmt.Sprintf("announce=%v refetch-script=%v", annKinds, scriptKinds))

		ctx, cancel := context.WithCancel(root)
		defer cancel()
		core := stateless.NewCore(prov, client, stateless.Config{})
		core.SetQueriers(stubBeacon{}, nil, nil)
		// what the node reports as ITS latest block is provider data too: at any moment it is the recorded block (the only
		// height the harness can verify) or nothing - also before the first announcement, when no block has been verified yet
		checkStatus := func(when string) {
			st, err := core.GetStatus(ctx)
			if err != nil {
				rec.Label("status:error")
				return
			}
			if st.LatestHeight == 0 && st.LatestHash == (hash.Hash{}) && st.LatestStateRoot.Hash == (hash.Hash{}) {
				rec.Label("status:" + when + ":no-latest-block")
				return
			}
			rec.Label("status:" + when + ":reports-a-block")
			if st.LatestHeight != fx.blk.Height || st.LatestHash != fx.blk.Hash || !st.LatestTime.Equal(fx.blk.Time) || st.LatestStateRoot != fx.blk.StateRoot {
				ev.Violation(t, "unverified-block-delivered", "GetStatus (%s) reports height %d hash %s state root %s (v%d) time %s as the latest block: not the recorded block of height %d; trace=%v", when, st.LatestHeight, st.LatestHash, st.LatestStateRoot.Hash, st.LatestStateRoot.Version, st.LatestTime, fx.blk.Height, trace)
			}
		}
		checkStatus("before-the-first-announcement")
		served := make(chan error, 1)
		go func() { served <- core.Serve(ctx) }()
		ch, sub, err := core.WatchBlocks(ctx)
		if err != nil {
			ev.Infra(t, "WatchBlocks: %v", err)
		}
		defer sub.Close()

		var got []*consensus.Block
		var gotMu sync.Mutex
		collectorDone := make(chan struct{})
		stopCollect := make(chan struct{})
		arrived := make(chan struct{}, 64)
		go func() {
			defer close(collectorDone)
			for {
				select {
				case b := <-ch:
					gotMu.Lock()
					got = append(got, b)
					gotMu.Unlock()
					arrived <- struct{}{}
				case <-stopCollect:
					return
				}
			}
		}()

		// feed the announcements; the stream is unbuffered, so a send returns when the core took the block
		stopped := false
		pushed := 0
	feed:
		for _, b := range anns {
			select {
			case prov.stream <- b:
				pushed++
			case err := <-served:
				trace = append(trace, fmt.Sprintf("watcher stopped after %d announcements: %v", pushed, firstLine(err)))
				stopped = true
				break feed
			case <-time.After(3 * time.Minute):
				ev.Infra(t, "the core does not take announcement %d (trace %v)", pushed, trace)
			}
		}
		if !stopped {
			// end of stream: the watcher returns once everything announced has been handled
			close(prov.stream)
			select {
			case err := <-served:
				trace = append(trace, fmt.Sprintf("watcher stopped at end of stream: %v", firstLine(err)))
			case <-time.After(3 * time.Minute):
				ev.Infra(t, "the watcher does not return after the end of the stream (trace %v)", trace)
			}
		}
		// every genuine announcement before the first altered one must arrive; afterwards a grace period for surplus deliveries
		want := firstAltered
		if want < 0 {
			want = nAnn
		}
		deadline := time.After(60 * time.Second)
		for n := 0; n < want; n++ {
			select {
			case <-arrived:
			case <-deadline:
				gotMu.Lock()
				k := len(got)
				gotMu.Unlock()
				// C19 is a safety property: a watcher that delivers less than it could hands nothing unverified out. Counted, not a violation.
				rec.Discard(fmt.Sprintf("genuine-announcement-not-delivered-within-60s:%d-of-%d", k, want))
				n = want
			}
		}
		grace := time.After(150 * time.Millisecond)
	surplus:
		for {
			select {
			case <-arrived:
			case <-grace:
				break surplus
			}
		}
		checkStatus("after-the-announcements")
		close(stopCollect)
		<-collectorDone
		cancel()
		gotMu.Lock()
		defer gotMu.Unlock()
		for i, b := range got {
			d := diffBlock(p0, b)
			var real []string
			for _, c := range d.classes {
				if declaredUnbound[c] == "" {
					real = append(real, c)
				}
			}
			if !d.decodable || len(real) > 0 {
				ev.Violation(t, "unverified-block-delivered", "delivery %d to the WatchBlocks subscriber is not the recorded block of height %d: differs in [%s] (%s %s); provider was asked %d times for the block again; trace=%v",
					i, fx.lb.Height, strings.Join(real, ","), d.why, d.detail, prov.asked, trace)
			}
		}
		if len(got) > want {
			// identical-to-genuine surplus deliveries are fine (a re-fetched genuine block, a later genuine announcement)
			rec.Label("surplus-genuine-deliveries")
		}
		rec.Label(fmt.Sprintf("delivered:%d", len(got)))
		if prov.asked > 0 {
			rec.Label("core-asked-provider-again")
		}
		if stopped {
			rec.Label("watcher-stopped-on-altered-announcement")
		}
		nt := firstAltered >= 0
		var sample any
		if nt && rec.WantSample() {
			sample = append([]string{}, trace...)
		}
		rec.Case(nt, ev.Fingerprint(fmt.Sprint(annKinds), fmt.Sprint(scriptKinds)), sample)
	})
}

func firstLine(err error) string {
	if err == nil {
		return "<nil>"
	}
	s := err.Error()
	if len(s) > 160 {
		s = s[:160]
	}
	return s
}

// stubBeacon answers the one beacon query GetStatus makes (the epoch); it carries no provider data.
type stubBeacon struct{}

type stubBeaconQuery struct{}

func (stubBeacon) QueryAt(context.Context, int64) (cmtbeacon.Query, error) {
	return stubBeaconQuery{}, nil
}
func (stubBeaconQuery) Beacon(context.Context) ([]byte, error) { return nil, nil }
func (stubBeaconQuery) Epoch(context.Context) (beacon.EpochTime, int64, error) {
	return 1, 1, nil
}
func (stubBeaconQuery) FutureEpoch(context.Context) (*beacon.EpochTimeState, error) { return nil, nil }
func (stubBeaconQuery) VRFState(context.Context) (*beacon.VRFState, error)          { return nil, nil }
func (stubBeaconQuery) Genesis(context.Context) (*beacon.Genesis, error)            { return nil, nil }
func (stubBeaconQuery) ConsensusParameters(context.Context) (*beacon.ConsensusParameters, error) {
	return nil, nil
}
