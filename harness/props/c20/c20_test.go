// Package c20 decides property C20 (runtime transaction pool respects sender order, priority
// and capacity) with a model-based state machine over the real main queue (exported through the
// verif-tagged hook go/runtime/txpool/export_verif.go).
package c20

import (
	"encoding/binary"
	"fmt"
	"math"
	"sort"
	"testing"

	"pgregory.net/rapid"

	"github.com/oasisprotocol/oasis-core/go/common/crypto/hash"
	"github.com/oasisprotocol/oasis-core/go/runtime/txpool"

	"verifharness/ev"
)

const maxBatch = 100

type mtx struct {
	h        hash.Hash
	id       int
	sender   string
	seq      uint64
	priority uint64
}

type msender struct {
	seq uint64
	txs map[uint64]*mtx
}

// model is the straightforward reference: per-sender maps and linear scans.
type model struct {
	capacity  int
	senders   map[string]*msender
	byHash    map[hash.Hash]*mtx
	scheduled map[string]uint64 // sender -> last sequence scheduled in the current pass
}

func newModel(capacity int) *model {
	return &model{capacity: capacity, senders: map[string]*msender{}, byHash: map[hash.Hash]*mtx{}, scheduled: map[string]uint64{}}
}

func (m *model) remove(tx *mtx) {
	s := m.senders[tx.sender]
	delete(s.txs, tx.seq)
	delete(m.byHash, tx.h)
	if len(s.txs) == 0 {
		// A sender is only known while it has queued transactions.
		delete(m.senders, tx.sender)
	}
}

func (m *model) forward(sender string, seq uint64) {
	s, ok := m.senders[sender]
	if !ok || seq <= s.seq {
		return
	}
	s.seq = seq
	var old []*mtx
	for _, tx := range s.txs {
		if tx.seq < seq {
			old = append(old, tx)
		}
	}
	for _, tx := range old {
		m.remove(tx)
	}
}

// ready returns the transactions that may be scheduled next: for each sender the transaction
// following the last one scheduled in this pass, or the one at its current sequence number.
func (m *model) ready() []*mtx {
	var out []*mtx
	for name, s := range m.senders {
		want := s.seq
		if last, ok := m.scheduled[name]; ok {
			if last == math.MaxUint64 {
				continue
			}
			want = last + 1
		}
		if tx, ok := s.txs[want]; ok {
			out = append(out, tx)
		}
	}
	return out
}

type addResult int

const (
	addOK addResult = iota
	addExpired
	addUnderpricedReplacement
	addAtCapacity // accepted or rejected depending on which minimal-priority tx is evicted
)

// addDecide classifies what must happen (without mutating).
func (m *model) addDecide(tx *mtx, stateSeq uint64) addResult {
	cur := stateSeq
	s, known := m.senders[tx.sender]
	if known && s.seq > cur {
		cur = s.seq
	}
	if tx.seq < cur {
		return addExpired
	}
	if known {
		if old, ok := s.txs[tx.seq]; ok && old.priority >= tx.priority {
			return addUnderpricedReplacement
		}
	}
	return addOK
}

type traceOp struct {
	Op   string `json:"op"`
	Args string `json:"args,omitempty"`
	Res  string `json:"res,omitempty"`
}

type stats struct {
	replaced, evicted, chained, midPassAdd, boundary63, boundary64, resetWithPending bool
	scheduleCalls                                                                    int
}

type machine struct {
	t        *rapid.T
	q        *txpool.VerifMainQueue
	m        *model
	senders  []string
	stateSeq map[string]uint64 // the runtime's view of each sender's sequence (monotone)
	nextID   int
	trace    []traceOp
	st       stats
	inPass   bool
}

func mkHash(id int) hash.Hash {
	var b [8]byte
	binary.LittleEndian.PutUint64(b[:], uint64(id))
	return hash.NewFromBytes(b[:])
}

var seqBases = []uint64{0, 3, 1<<63 - 3, math.MaxUint64 - 4}

func (mc *machine) log(op, args, res string) {
	mc.trace = append(mc.trace, traceOp{op, args, res})
}

func (mc *machine) fail(sig, format string, args ...any) {
	ev.Violation(mc.t, sig, format+"; trace=%+v", append(args, mc.trace)...)
}

func (mc *machine) checkContents(where string) {
	got := mc.q.All()
	if len(got) != len(mc.m.byHash) || mc.q.Size() != len(mc.m.byHash) {
		mc.fail("contents", "%s: queue holds %d (size %d), model %d", where, len(got), mc.q.Size(), len(mc.m.byHash))
	}
	for _, h := range got {
		if _, ok := mc.m.byHash[h]; !ok {
			mc.fail("contents", "%s: queue holds a transaction the model does not", where)
		}
	}
	if len(got) > mc.m.capacity {
		mc.fail("capacity", "%s: queue holds %d > capacity %d", where, len(got), mc.m.capacity)
	}
}

// addRun adds a few consecutive sequence numbers of one sender (what a busy account does).
func (mc *machine) addRun(t *rapid.T) {
	sender := rapid.SampledFrom(mc.senders).Draw(t, "runSender")
	n := rapid.IntRange(2, 4).Draw(t, "runLen")
	for i := 0; i < n; i++ {
		mc.addOne(t, sender, i)
	}
}

func (mc *machine) add(t *rapid.T) {
	sender := rapid.SampledFrom(mc.senders).Draw(t, "sender")
	mc.addOne(t, sender, -100)
}

func (mc *machine) addOne(t *rapid.T, sender string, fixedOff int) {
	base := mc.stateSeq[sender]
	// advance the runtime's view sometimes (never backwards)
	if rapid.IntRange(0, 5).Draw(t, "advance") == 0 && base < math.MaxUint64-2 {
		base += uint64(rapid.IntRange(1, 2).Draw(t, "by"))
		mc.stateSeq[sender] = base
	}
	off := fixedOff
	if fixedOff == -100 {
		off = rapid.SampledFrom([]int{-2, -1, 0, 0, 0, 1, 1, 1, 2, 2, 3, 4, 6}).Draw(t, "seqOff")
	}
	seq := base + uint64(off)
	if off < 0 && base < uint64(-off) {
		seq = 0
	}
	if off > 0 && seq < base { // wrapped
		seq = math.MaxUint64
	}
	prio := rapid.SampledFrom([]uint64{0, 1, 1, 2, 2, 3, 4, 5, math.MaxUint64}).Draw(t, "prio")
	mc.nextID++
	tx := &mtx{h: mkHash(mc.nextID), id: mc.nextID, sender: sender, seq: seq, priority: prio}

	// model: forward to the runtime's view, then decide
	mc.m.forward(sender, base)
	dec := mc.m.addDecide(tx, base)
	err := mc.q.Add(tx.h, sender, seq, prio, base)
	res := "ok"
	if err != nil {
		res = err.Error()
	}
	mc.log("add", fmt.Sprintf("id=%d sender=%s seq=%d prio=%d stateSeq=%d", tx.id, sender, seq, prio, base), res)
	if seq >= 1<<63-2 && seq <= 1<<63+1 {
		mc.st.boundary63 = true
	}
	if seq >= math.MaxUint64-1 {
		mc.st.boundary64 = true
	}
	switch dec {
	case addExpired:
		if err == nil {
			mc.fail("add-expired", "expired transaction (seq %d < current %d) was accepted", seq, base)
		}
	case addUnderpricedReplacement:
		if err == nil {
			mc.fail("replace", "same-sequence transaction with priority not strictly higher was accepted")
		}
	case addOK:
		s, ok := mc.m.senders[sender]
		if !ok {
			s = &msender{seq: base, txs: map[uint64]*mtx{}}
			mc.m.senders[sender] = s
		}
		if old, ok := s.txs[seq]; ok {
			// replacement
			if err != nil {
				mc.fail("replace", "strictly higher priority replacement rejected: %v", err)
			}
			delete(mc.m.byHash, old.h)
			s.txs[seq] = tx
			mc.m.byHash[tx.h] = tx
			mc.st.replaced = true
			break
		}
		if mc.inPass {
			mc.st.midPassAdd = true
		}
		s.txs[seq] = tx
		mc.m.byHash[tx.h] = tx
		if len(mc.m.byHash) > mc.m.capacity {
			// exactly one minimal-priority transaction must have been evicted; ties may be
			// broken either way, so find out which one went and validate it.
			minPrio := uint64(math.MaxUint64)
			for _, x := range mc.m.byHash {
				if x.priority < minPrio {
					minPrio = x.priority
				}
			}
			var victim *mtx
			for _, x := range mc.m.byHash {
				if !mc.q.Has(x.h) {
					if victim != nil {
						mc.fail("capacity", "more than one transaction evicted by one add")
					}
					victim = x
				}
			}
			if victim == nil {
				mc.fail("capacity", "capacity %d exceeded, nothing evicted", mc.m.capacity)
			}
			if victim.priority != minPrio {
				mc.fail("evict-lowest", "evicted priority %d while minimum is %d", victim.priority, minPrio)
			}
			if (victim == tx) != (err != nil) {
				mc.fail("evict-lowest", "add result %v inconsistent with evicted transaction (new evicted=%v)", err, victim == tx)
			}
			mc.m.remove(victim)
			mc.st.evicted = true
		} else if err != nil {
			mc.fail("add-rejected", "valid transaction rejected: %v", err)
		}
	}
	mc.checkContents("after add")
}

func (mc *machine) schedule(t *rapid.T, extra bool) {
	limit := rapid.SampledFrom([]int{0, 1, 1, 2, 3, 5, 8, 200}).Draw(t, "limit")
	if !extra {
		if len(mc.m.scheduled) > 0 && len(mc.m.ready()) > 0 {
			mc.st.resetWithPending = true
		}
		mc.m.scheduled = map[string]uint64{}
	}
	var got []hash.Hash
	if extra {
		got = mc.q.ScheduleExtra(limit)
	} else {
		got = mc.q.Schedule(limit)
	}
	mc.inPass = true
	mc.st.scheduleCalls++
	desc := ""
	seen := map[hash.Hash]bool{}
	perSender := map[string]int{}
	for i, h := range got {
		tx, ok := mc.m.byHash[h]
		if !ok {
			mc.log("schedule", fmt.Sprintf("extra=%v limit=%d", extra, limit), desc)
			mc.fail("schedule-unknown", "scheduled a transaction that is not queued")
		}
		desc += fmt.Sprintf("%d(%s:%d p%d) ", tx.id, tx.sender, tx.seq, tx.priority)
		if seen[h] {
			mc.log("schedule", fmt.Sprintf("extra=%v limit=%d", extra, limit), desc)
			mc.fail("schedule-duplicate", "transaction %d scheduled twice in one pass", tx.id)
		}
		seen[h] = true
		ready := mc.m.ready()
		isReady := false
		maxPrio := uint64(0)
		for _, r := range ready {
			if r == tx {
				isReady = true
			}
			if r.priority > maxPrio {
				maxPrio = r.priority
			}
		}
		if !isReady {
			mc.log("schedule", fmt.Sprintf("extra=%v limit=%d", extra, limit), desc)
			mc.fail("schedule-order", "pick %d: transaction %d (%s seq %d) scheduled before its lower sequence numbers", i, tx.id, tx.sender, tx.seq)
		}
		if tx.priority != maxPrio {
			mc.log("schedule", fmt.Sprintf("extra=%v limit=%d", extra, limit), desc)
			mc.fail("schedule-priority", "pick %d: priority %d while a ready transaction has %d", i, tx.priority, maxPrio)
		}
		mc.m.scheduled[tx.sender] = tx.seq
		perSender[tx.sender]++
		if perSender[tx.sender] >= 2 {
			mc.st.chained = true
		}
	}
	mc.log("schedule", fmt.Sprintf("extra=%v limit=%d", extra, limit), desc)
	want := limit
	if want > maxBatch {
		want = maxBatch
	}
	if len(got) < want && len(mc.m.ready()) > 0 {
		r := mc.m.ready()[0]
		mc.fail("schedule-short", "scheduled %d of limit %d although transaction %d (%s seq %d) is ready", len(got), limit, r.id, r.sender, r.seq)
	}
	if len(got) > want {
		mc.fail("schedule-limit", "scheduled %d > limit %d", len(got), want)
	}
	mc.checkContents("after schedule")
}

func (mc *machine) used(t *rapid.T) {
	var h hash.Hash
	all := mc.sortedTxs()
	if len(all) > 0 && rapid.IntRange(0, 5).Draw(t, "present") > 0 {
		h = all[rapid.IntRange(0, len(all)-1).Draw(t, "which")].h
	} else {
		h = mkHash(1_000_000 + rapid.IntRange(0, 3).Draw(t, "absent"))
	}
	if tx, ok := mc.m.byHash[h]; ok {
		mc.m.remove(tx)
		if tx.seq < math.MaxUint64 {
			mc.m.forward(tx.sender, tx.seq+1)
		}
		mc.log("used", fmt.Sprintf("id=%d", tx.id), "")
	} else {
		mc.log("used", "absent", "")
	}
	mc.q.HandleTxsUsed([]hash.Hash{h})
	mc.checkContents("after used")
}

func (mc *machine) sortedTxs() []*mtx {
	var all []*mtx
	for _, tx := range mc.m.byHash {
		all = append(all, tx)
	}
	sort.Slice(all, func(i, j int) bool { return all[i].id < all[j].id })
	return all
}

func (mc *machine) forward(t *rapid.T) {
	sender := rapid.SampledFrom(mc.senders).Draw(t, "sender")
	base := mc.stateSeq[sender]
	if base < math.MaxUint64-3 {
		base += uint64(rapid.IntRange(0, 3).Draw(t, "by"))
	}
	mc.stateSeq[sender] = base
	mc.m.forward(sender, base)
	mc.q.Forward(sender, base)
	mc.log("forward", fmt.Sprintf("sender=%s seq=%d", sender, base), "")
	mc.checkContents("after forward")
}

func (mc *machine) drain(t *rapid.T) {
	got := mc.q.Drain()
	if len(got) != len(mc.m.byHash) {
		mc.fail("contents", "drain returned %d, model holds %d", len(got), len(mc.m.byHash))
	}
	mc.m.senders = map[string]*msender{}
	mc.m.byHash = map[hash.Hash]*mtx{}
	mc.log("drain", "", "")
	mc.checkContents("after drain")
}

func (mc *machine) nontrivial() bool {
	return mc.st.replaced && mc.st.evicted && mc.st.chained
}

const rule = "case = rapid state machine over the real main queue: capacity 1-8, 1-4 senders with sequence bases {0, 3, 2^63-3, 2^64-5}, " +
	"actions add (seq offset -2..+6 from the sender's monotone state sequence, priorities with ties and 2^64-1), Schedule, ScheduleExtra (limits 0..200), " +
	"HandleTxsUsed (present/absent), Forward, Drain; oracle = reference model (per-sender maps, linear scans): contents equal after every action, add accept/reject " +
	"class, eviction victim has minimal priority, every scheduled pick is in the model's ready set with maximal priority, no duplicates, full length; " +
	"non-trivial = history with a replacement AND an eviction at capacity AND a pass chaining >=2 transactions of one sender; distinct = hash of the operation trace"

func TestC20Queue(t *testing.T) {
	rec := ev.New("C20", "TestC20Queue", rule,
		"a sender's state sequence number reported by the runtime never decreases",
		"schedule ties and eviction ties may be broken either way (validity predicate, not list equality)")
	defer rec.Flush()
	var cur *machine
	ev.Trace = func() any {
		if cur == nil {
			return nil
		}
		return cur.trace
	}
	rapid.Check(t, func(t *rapid.T) {
		capacity := rapid.IntRange(1, 8).Draw(t, "capacity")
		ns := rapid.IntRange(1, 4).Draw(t, "senders")
		mc := &machine{t: t, q: txpool.NewVerifMainQueue(capacity), m: newModel(capacity), stateSeq: map[string]uint64{}}
		cur = mc
		for i := 0; i < ns; i++ {
			name := string(rune('A' + i))
			mc.senders = append(mc.senders, name)
			mc.stateSeq[name] = rapid.SampledFrom(seqBases).Draw(t, "base")
		}
		t.Repeat(map[string]func(*rapid.T){
			"add":           mc.add,
			"add2":          mc.add,
			"addRun":        mc.addRun,
			"schedule":      func(t *rapid.T) { mc.schedule(t, false) },
			"scheduleExtra": func(t *rapid.T) { mc.schedule(t, true) },
			"used":          mc.used,
			"forward":       mc.forward,
			"drain": func(t *rapid.T) {
				if rapid.IntRange(0, 3).Draw(t, "really") != 0 {
					t.Skip("no drain")
				}
				mc.drain(t)
			},
		})
		for _, l := range []struct {
			on   bool
			name string
		}{{mc.st.replaced, "replacement"}, {mc.st.evicted, "eviction"}, {mc.st.chained, "chained-pass"}, {mc.st.midPassAdd, "add-during-pass"},
			{mc.st.boundary63, "seq-near-2^63"}, {mc.st.boundary64, "seq-near-2^64"}, {mc.st.resetWithPending, "reset-with-pending"}} {
			if l.on {
				rec.Label(l.name)
			}
		}
		var sample any
		if mc.nontrivial() && rec.WantSample() {
			sample = map[string]any{"capacity": capacity, "senders": ns, "trace": mc.trace}
		}
		rec.Case(mc.nontrivial(), ev.Fingerprint(fmt.Sprintf("%d|%v|%+v", capacity, mc.senders, mc.trace)), sample)
	})
}

// TestC20SeqBoundary is the deterministic reproduction of the 2^63 sequence boundary (probe P3):
// three consecutive transactions of one sender around 2^63 must all be scheduled in one pass.
func TestC20SeqBoundary(t *testing.T) {
	rec := ev.New("C20", "TestC20SeqBoundary", "deterministic boundary probe: 3 consecutive sequence numbers starting at b-1 for b in {2^63-1, 2^63, 2^64-2}; one pass must schedule all 3 in order", "")
	defer rec.Flush()
	for _, start := range []uint64{1<<63 - 2, 1<<63 - 1, math.MaxUint64 - 2} {
		q := txpool.NewVerifMainQueue(8)
		for i := uint64(0); i < 3; i++ {
			if err := q.Add(mkHash(int(i)+1), "A", start+i, 1, start); err != nil {
				t.Fatalf("INFRA: add failed: %v", err)
			}
		}
		got := q.Schedule(10)
		if len(got) != 3 || got[0] != mkHash(1) || got[1] != mkHash(2) || got[2] != mkHash(3) {
			ev.Violation(t, "seq-boundary-2^63", "sequences %d..%d: one pass scheduled %d of 3 consecutive transactions", start, start+2, len(got))
		}
		rec.Case(true, ev.Fingerprint(start), map[string]any{"start": start, "scheduled": len(got)})
	}
}

// TestC20ForwardPromotes is the shrunk reproduction of the defect found by TestC20Queue on the
// original tree (fixed in /repo by "fix: runtime txpool promotes a sender's next transaction ..."):
// when a sender's first transaction is used (or the sender is forwarded) without having been
// scheduled locally, the sender's next transaction must become schedulable.
func TestC20ForwardPromotes(t *testing.T) {
	rec := ev.New("C20", "TestC20ForwardPromotes", "deterministic regression cases (shrunk failures of TestC20Queue): used-first-then-schedule, forward-over-gap-then-schedule", "")
	defer rec.Flush()
	{
		q := txpool.NewVerifMainQueue(8)
		_ = q.Add(mkHash(1), "A", 0, 1, 0)
		_ = q.Add(mkHash(2), "A", 1, 1, 0)
		q.HandleTxsUsed([]hash.Hash{mkHash(1)})
		got := q.Schedule(10)
		if len(got) != 1 || got[0] != mkHash(2) {
			ev.Violation(t, "schedule-short", "after the first transaction was used, the sender's next one is not scheduled (got %d)", len(got))
		}
		rec.Case(true, ev.Fingerprint("used"), "add A:0, add A:1, used A:0, schedule -> [A:1]")
	}
	{
		q := txpool.NewVerifMainQueue(8)
		_ = q.Add(mkHash(1), "A", 2, 0, 0)
		q.Forward("A", 2)
		got := q.Schedule(1)
		if len(got) != 1 || got[0] != mkHash(1) {
			ev.Violation(t, "schedule-short", "after forwarding the sender to the queued sequence number it is not scheduled (got %d)", len(got))
		}
		rec.Case(true, ev.Fingerprint("forward"), "add A:2 (state 0), forward A->2, schedule -> [A:2]")
	}
}
