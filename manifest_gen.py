#!/usr/bin/env python3
"""Regenerates /verif/MANIFEST.json from the table below (run after adding/removing a check)."""
import json
import os
import subprocess

ROOT = os.path.dirname(os.path.abspath(__file__))

# property -> (engine, category, technique, level text, level note, design ref)
CHECKS = {
    "C11": ("pure", "exploration",
            "model-based property testing (rapid) + exhaustive small-scope enumeration against a reference model",
            "Generated committees and commitment streams (rapid, 16 shards) plus exhaustive enumeration of all short streams for small "
            "committees; after every step the real pool's admission decision, outcome class and finalized commitment are compared with a "
            "reference model written from the statement. Finds any disagreement inside the explored bounds; proves nothing beyond them. "
            "Application level (TestC11App): the real roothash ABCI application is driven through the in-process chain engine with generated ExecutorCommit "
            "transactions (agreeing, dissenting, failure-indicating, duplicate, non-member, wrong-round, every scheduler rank; batched and spread over blocks so "
            "that proposer and discrepancy timeouts fire); the same reference model is replayed in the application's own order of processing and after every "
            "block the admission of each transaction, the emitted runtime block (Normal / RoundFailed / EpochTransition, round, state and IO root, previous "
            "hash), the discrepancy flag, highest rank and the next timeout height are compared.",
            "Assumes commitments passed VerifyExecutorCommitment (same round, no scheduler failure for itself) and round numbers far below "
            "2^64 (SchedulerRank wraps there); the reference model is trusted as the reading of the statement.",
            "DESIGN.md 4/C11"),
    "C20": ("pure", "exploration",
            "model-based stateful property testing (rapid state machine) with validity predicates for schedules and evictions",
            "Random operation histories (add, add-run, Schedule, ScheduleExtra, HandleTxsUsed, Forward, Drain) over the real main queue through a "
            "verif-tagged export; after every action contents, accept/reject class, eviction victim and every scheduled pick are checked "
            "against a straightforward reference model. Two defects found this way were repaired (see known_findings.json) and their shrunk "
            "reproductions run as deterministic regression cases.",
            "Assumes a sender's state sequence number never decreases; ties in priority may be broken either way.",
            "DESIGN.md 4/C20"),
}

CHECKS["C02"] = ("kv", "exploration",
    "metamorphic multi-history property testing (rapid) against an independent reference root hash",
    "For generated final contents, 2-4 generated operation histories (different order, batching into commits, reopen points, cache capacity, "
    "backend, write-log option) plus write-log replay, CommitKnown and NoPersist variants must all produce the root computed by an independent "
    "from-scratch reference hash of the contents, after every intermediate commit too; changing one key/value bit/length must change both. One "
    "defect found this way was repaired (value-size accounting, regression case kept); two node-cache defects at tiny capacities are recorded as "
    "known findings with deterministic probes and excluded from the generators by construction.",
    "Keys <= 8191 bytes, non-nil values. Node capacities below the walked path and small value capacities combined with prefix keys are only "
    "generated when the corresponding known finding is not listed as known. Checkpoint restore as a history variant is covered under C12.",
    "DESIGN.md 4/C02")

CHECKS["C03"] = ("kv", "exploration",
    "model-based stateful property testing (rapid state machine) against a reference ordered map",
    "Random action histories over a tree on a real node database (both backends, generated cache strata, write log on/off) and a stack of up to 3 "
    "overlays: insert, remove, remove-existing, get, iterator seek/next with interleaved reads, overlay push/commit/copy/discard, tree commit, close and "
    "reopen with another capacity. Every result and, after every action, a full scan plus a get of every universe key on every layer are compared with a "
    "reference map; each committed root is compared with the independent reference root.",
    "No writes while an iterator of the same object is open; only the top overlay is written; non-nil values; single-threaded. The two node-cache known "
    "findings (tiny capacities) are excluded by construction and re-checked by deterministic probes.",
    "DESIGN.md 4/C03")

CHECKS["C15"] = ("pure", "exploration",
    "stateful property testing (rapid) with exact big-integer/rational inequalities as oracle",
    "Layer 1 (API level): random histories over one escrow account (active + debonding share pool, 2-5 delegators) performing exactly the calls the staking "
    "application makes (AddEscrow, ReclaimEscrow, debonding completion, rewards with commission, slashing via the real SlashEscrow on a mock state), with pool states "
    "from empty to 2^128 scale and fully slashed pools. After every action exact math/big inequalities are checked: minted shares and paid amounts never exceed the "
    "pro-rata value, nobody else's redeemable value or the share price drops except by slashing, no value is created, bookkeeping sums match. Plus round-trip and "
    "split/merge relations. Layer 2 (TestC15Debonding, through the real ABCI multiplexer): generated chains with genesis debonding delegations whose end epoch lies "
    "before/at/after the base epoch (skipped end epochs), many delegators reclaiming from shared escrow accounts, slashing and epoch transitions; a reference ledger "
    "of debonding delegations plus the block's payout events decide: not paid before the end epoch, removed at the first transition at or after it, every payout "
    "consumes exactly one matured ledger entry (exactly once), each amount equals floor(shares*balance/totalShares) of the debonding pool at that payout.",
    "Epochs advance by one inside a generated chain (production beacon); skipped end epochs come from the genesis document. "
    "A pool with balance but no shares gives the balance to the first depositor (counted, not asserted).",
    "DESIGN.md 4/C15")

CHECKS["C13"] = ("kv", "exploration",
    "round-trip of served write logs + model-decided accept/reject of corrupted logs (rapid)",
    "Generated chains of consecutive roots (state roots and IO roots incl. the two-hop empty->i->io pattern, both backends). For every pair the write log returned by "
    "Commit and the one served by GetWriteLog (before and after finalization) must transform the model of the start root into the model of the end root and, applied to "
    "a real tree at the start root, hash to the end root. A follower on the other backend applies the served log or a generated corruption through RootCache.Apply; the "
    "reference model decides whether it must succeed (root present, contents equal) or fail (root absent, version's roots unchanged). One defect (two-hop order) was "
    "found and repaired; its shrunk case runs as a regression.",
    "A GetWriteLog error means 'not served' (counted per error text), not a violation; write logs are not discarded; the follower finalizes after each successful apply. A third of the versions get a competing candidate root committed first, so write logs of pending roots with a non-zero sequence number are requested too.",
    "DESIGN.md 4/C13")
CHECKS["C18"] = ("pure", "exploration",
    "metamorphic mutation of known-good quote/collateral vectors + independent time/policy model (rapid) + exhaustive single-bit enumeration",
    "For the repository's genuine SGX and TDX quotes with their collateral: generated byte-, field- and structure-level mutants of the quote, the TCB info, the QE identity and "
    "the certificate chains (incl. forgeries re-signed with a harness key and cross-platform combinations) must be rejected or yield the identical verified identity and report "
    "data with byte-identical signed regions; verification times across every validity boundary and policy settings around their boundary values are decided by an independent "
    "model computed from the parsed collateral; every single bit of both quotes is flipped exhaustively; TCBBundle.Verify is checked against an independent model with perturbed "
    "platform data.",
    "Only the vectors in go/common/sgx/pcs/testdata are available as accepted starting points; Intel's root key is trusted as in the code under test.",
    "DESIGN.md 4/C18")

CHECKS["C04"] = ("kv", "exploration",
    "completeness by an independent walker + soundness by proof mutation with 'rejected or never lies' (rapid); adversarial-peer script for remote readers",
    "Generated trees and queries (SyncGet with siblings on/off, positioned at the root or an inner node, SyncGetPrefixes, SyncIterate; proof versions 0/1): every honest proof must verify and an "
    "independent walker over the verified subtree must determine each asked key with the true answer. Up to 12-30 mutants per proof (byte/entry/structure level, version/root changes, entries "
    "spliced from a tree differing in one key) are each either rejected or, for every universe key, yield 'undetermined' or the truth; a foreign tree's proof never verifies. A reader holding only "
    "the trusted root reads through a scripted adversarial peer (errors, mutated proofs, answers of another tree) and must return the replica's answers or an error, and recover once the peer is honest.",
    "Trees at most 128 nodes deep (documented maxProofDepth). Remote readers with a node cache smaller than the tree give wrong answers even with an honest peer: recorded as a known finding with a "
    "deterministic probe; such capacities are excluded from the generator while it is listed as known. Mutants are also built on the stored (non-compact) re-encoding of internal nodes, and the adversarial peer may answer with a valid root-anchored proof of another question.",
    "DESIGN.md 4/C04")

CHECKS["C19"] = ("pure", "exploration",
    "mutation of provider answers with 'rejected or semantically identical under an independent decode' (rapid) + deterministic single-field probes",
    "Through a verif-tagged export of the stateless backend's pure verification functions: the recorded block/light-block pair and synthesized pairs are mutated at field, CBOR, protobuf and byte level "
    "(34 operators: height, hash, time, state root fields, meta header, last commit), transaction lists and block results are dropped/added/reordered/altered or served for another height, validator sets "
    "are altered, inclusion proofs are checked for every index pair of generated lists and under mutation, and metadata-transaction forgeries are tried. A mutant must be rejected or decode (independently) "
    "to the identical content. Three defects found this way were repaired (last-commit height / block ID binding, nil result panic); six inherent unbound fields are known findings with probes.",
    "Block.Size and result events are declared unverifiable by the code itself and only counted. verifyParameters is driven through a verif-tagged export (TestC19Parameters); Core.GetBlockResults / "
    "GetTransactionsWithResults are driven over a generated trusted light store with gaps, unreachable providers and tampered results (TestC19CoreResults); the remaining querier wrappers only through their pure comparison parts.",
    "DESIGN.md 4/C19")

CHECKS["C01"] = ("chain", "exploration",
    "differential testing between replicas over generated block histories, execution paths and local configurations (rapid)",
    "The real ABCI multiplexer with all eight consensus applications is driven in-process by a small generated consensus-engine model: production-mode genesis documents, 8-40 (quick) / 150 (thorough) blocks of "
    "generated transactions, votes, evidence and time gaps; 3-4 replicas on both node-database backends with different local settings; each block every replica takes a generated path (propose with cached "
    "results, process-proposal, process-another-proposal-first, plain replay), disk-backed replicas are restarted at generated heights and one replica gets side traffic (CheckTx, EstimateGas, state reads) "
    "at generated points between ABCI calls. Every height all replicas must agree on AppHash, per-transaction results and validator updates (as a set), and accept the proposal. Running the replicas in one "
    "process also samples different Go map iteration orders (a seeded unsorted-map mutant is caught this way).",
    "Interleavings are harness-scheduled between ABCI calls, not true thread interleavings; CheckTx is never issued during Commit. Roothash, vault and governance traffic is part of the histories; some replicas run the real node-local upgrade manager over a persistent store while governance passes upgrade proposals (node-local data must not leak into the verdict); a third of the cases run the VRF beacon with real proofs.",
    "DESIGN.md 3.2, 4/C01")
CHECKS["C05"] = ("chain", "exploration",
    "history invariant recomputed with big integers after every block (rapid) + in-tree sanity checker as second opinion",
    "Generated economy-heavy block histories on the real multiplexer (fees with all fee-split weights, rewards, commission, slashing through evidence, delegations at share prices != 1, debonding, governance "
    "deposits, burns, allowances, vaults; zero and 2^255-scale amounts; reserved and equal addresses). After every commit the complete staking ledger is read back and the supply equation, per-pool share sums and "
    "'total supply changes only by the burn events of that block' are recomputed with math/big.",
    "Observed at block boundaries only. The supplementary sanity checker is registered on the same replica and a failure of it is reported under its own signature.",
    "DESIGN.md 4/C05")

CHECKS["C10"] = ("chain", "exploration",
    "hostile block-history generation with panic / REJECT monitor on the real multiplexer (rapid)",
    "Generated hostile histories (extreme amounts, garbage / truncated / oversized transactions, user-signed system methods, evidence against current, former and unknown validators incl. duplicates, minimum vote "
    "participation, total slashing, depleted pools, coinciding epoch events) in two modes per block: an HONEST proposer whose mempool is what passed CheckTx must always obtain a proposal that every replica accepts; "
    "a BYZANTINE proposer includes everything and may inject transactions behind its own PrepareProposal. Accepted blocks must execute without panic on the process and the replay path with identical AppHash; "
    "a rejected Byzantine block must also be unexecutable on the replay path; validator updates must satisfy the engine's contract.",
    "The documented precondition (a validator can still be elected) is kept by an anchor validator entity and recognised by its error text otherwise (counted discard). Runtime-heavy traffic is one of the mixes: whole runtime rounds are scripted (agreeing, scheduler-only, dissent resolved / overruled / unresolved by the backup workers, failure votes, silence) in epochs long enough for a round to time out, be resolved or fail, so that the pay / slash / liveness code of roothash EndBlock runs; a chain halt found this way on the pinned tree was repaired (regression TestC10SlashRewardDeadPool). The traffic mix includes the registry generator of C17 and the debonding profile of C15.",
    "DESIGN.md 4/C10")
CHECKS["C08"] = ("chain", "exploration",
    "exact working-state diff of single probe transactions against an independent authentication predicate (rapid)",
    "At generated points of generated histories, candidate transactions of every buildable method (valid or with one aspect invalidated, incl. every gas exhaustion point) are executed alone in an uncommitted block "
    "and the complete working state is diffed against the same block without them. A failing transaction that an independent predicate (stdlib ed25519, nonce, balance, reserved/system/oversized) rejects at "
    "authentication must leave an EMPTY diff; one that passes authentication may only change the signer's nonce (+1) and balance (-fee) and the fee sinks, summing exactly to the fee. CheckTx / EstimateGas of all "
    "candidates leave the committed state in the node database byte-identical and the prober's AppHash equals a clean twin's at every height.",
    "Probe blocks contain exactly one transaction; signers whose account the empty block itself changes are skipped (counted). Events are not consensus state. Vault traffic (vaults with balances and withdraw policies from genesis, state-aware vault actions, withdrawals through the vault's withdraw hook) and node updates that change roles are part of the candidate transactions.",
    "DESIGN.md 4/C08")

CHECKS["C09"] = ("chain", "exploration",
    "adversarial derivative generation with exact state diffs against an independent signature/nonce predicate (rapid)",
    "At generated points of generated histories a correctly signed and sequenced transaction is taken and 10-40 (quick) derivatives are each executed alone in an uncommitted block with an exact working-state diff: "
    "bit flips anywhere, envelope re-encodings, other key over the same blob, signatures under every other registered signature context (listed through a verif hook), other chain context, no chain separation, raw "
    "blob, zero signature, re-signed nonce variants, replay inside one block, replay in later blocks and after restarts of the disk-backed replica. A byte string may change state only if stdlib ed25519 verifies it "
    "over the harness-computed digest for this chain and its nonce is current; each effect advances exactly that signer's nonce by one; effective altered encodings must decode to the identical statement.",
    "Effects are observed through single-transaction probe blocks; multi-transaction blocks are covered by the nonce/fee reasoning of C08 and the supply invariants of C05. Signatures by the 14 encodings of small-order points (with small-order R, S=0) are generated as well; the harness's authenticity predicate rejects them with an independent math/big curve implementation.",
    "DESIGN.md 4/C09")
CHECKS["C07"] = ("kv", "fault_enumeration",
    "exhaustive crash-point enumeration per generated history with child processes killed at verif-tagged crash markers",
    "For generated on-disk histories (both backends) and one target operation (commit, finalize with discarded siblings, prune, checkpoint restore, abort, reopen with leftover restore) a child process first "
    "counts the crash markers hit between durable writes, then for EVERY hit a fresh child re-executes the history and dies there (os.Exit); the parent reopens the database and checks: finalized versions intact, "
    "operation applied or not applied, retry reaches exactly the uninterrupted outcome (incl. equal raw key sets for prune/finalize), no partially restored root visible, database keeps working. Two defects "
    "found were repaired in /repo; three pathbadger/badger multipart findings are known findings with probes.",
    "Crash = process death with the operating system running (NoFsync is what the consensus layer uses; power loss is not claimed). Crash points are those between durable writes, not inside a badger batch flush.",
    "DESIGN.md 4/C07")
CHECKS["C12"] = ("kv", "exploration",
    "round trip + determinism + corruption rejection over generated trees, chunkings and restore schedules (rapid)",
    "Generated contents (empty to 300 / 3000 keys, deep prefix chains), chunk sizes from 1 byte to larger than the tree, chunker threads 0-32, both backends in both roles; restore plans with permutations, "
    "duplicates, broken transfers, abort/restart and 1-4 concurrent callers behind a barrier. After finalization the restored root must exist, scan to exactly the source contents, hash to the reference root, "
    "survive reopen and accept a further commit; checkpoint metadata and chunk bytes must be identical across runs, GOMAXPROCS and source backends and the chunks must cover every key (independent proof "
    "evaluator); one corrupted chunk per case (raw and digest-recomputed kinds incl. chunks of a neighbouring tree) must be rejected without changing anything readable.",
    "Two known findings (restore after an aborted restore on pathbadger; trees deeper than the verifier's maxProofDepth) are excluded by construction and probed deterministically.",
    "DESIGN.md 4/C12")

CHECKS["C14"] = ("chain", "exploration",
    "validity predicate recomputed from the state each election actually saw (captured between ABCI calls) over generated multi-epoch histories (rapid)",
    "Generated registries and stake distributions (ties, boundary stakes, mixed roles, optional compute runtime) evolve over 3-10 epochs through escrow, reclaim, slashing with freezing, node expiry and "
    "re-registration. For every epoch-transition block the state right after BeginBlock is captured and, after the commit, every elected validator and committee member is checked to be registered, unexpired, "
    "unfrozen, carrying the role / runtime version and covered by its entity's stake; limits, stake order, voting power = VotingPowerFromStake and its monotonicity, exact committee sizes and 'validator "
    "updates turn the previous set into the elected one' (against the consensus-engine model) are verified; a second replica must agree on the AppHash.",
    "Both beacon backends: with the VRF backend nodes submit real proofs, sit out epochs or are late, and the oracle follows the VRF eligibility rules (proof required for validators once MinValidators candidates proved, for committee members always; low-quality alpha = no committees; registration must predate the epoch). Elections triggered by slashing inside an epoch are executed but only epoch-transition elections are evaluated. Runtime scheduling constraints are generated (per-entity MaxNodes, MinPoolSize above the group size, validator-set membership) and checked: candidate pool after the per-entity cap >= MinPoolSize for every existing committee, members per entity <= MaxNodes.",
    "DESIGN.md 4/C14")

CHECKS["C17"] = ("chain", "exploration",
    "authority-by-construction mutants + index/claim recomputation from primary records after every block (rapid)",
    "Registry-heavy generated histories on the real multiplexer: node re-registrations that keep, renew, swap or cycle the node's own P2P/TLS/VRF keys or take another node's key, entity node-list updates, "
    "first registrations of whitelisted and stray nodes, deregistration, runtime updates, expiry and re-registration - each also as an unauthorized variant built by construction (wrong transaction signer, each "
    "single descriptor signature missing or foreign, node not listed, non-governing entity). Every unauthorized variant must fail; after every block all key-to-node indexes, raw index sizes, entity/node/runtime "
    "ownership relations and every account's stake claims with thresholds are recomputed from the primary records. One defect (key exchange between roles loses a key-map entry) was found and repaired; its "
    "shrunk reproduction runs as a regression.",
    "Authority defects are known to the generator by construction; that failing transactions change nothing else is C08's result. Consensus keys and the anchor validator's keys are not rotated. Generated registry traffic includes role changes, abandoned/expired nodes, foreign listings, nodes naming another owning entity (migrations) and runtime hand-over to runtime governance.",
    "DESIGN.md 4/C17")
CHECKS["C06"] = ("kv", "exploration",
    "model-based stateful property testing of version histories on both node databases + backend differential (+ race-detector stress in thorough)",
    "A rapid state machine commits several candidate roots per version (built to share, re-put, resurrect and collide nodes; unchanged and empty roots; state and IO types), finalizes a generated choice, prunes "
    "with a generated lag and reopens disk-backed databases; after EVERY action every retained finalized root must exist, be listed, scan / get / prove exactly its model contents, discarded candidates must be "
    "absent, unreadable or exactly their own contents, pruned versions absent. The same history on badger and pathbadger must answer identically on what both accept. Four genuine findings are recorded as known "
    "findings with deterministic probes and excluded by construction.",
    "Caller rules respected: versions finalized in order, one finalized root per type per version (a rare badger-only two-sibling action mirrors the repo's own prune test), IO roots without children. An operation "
    "that returns an error is 'not accepted' and only counted. The concurrency clause is covered by a thorough-tier race-detector stress test whose mismatches count only if reproduced sequentially.",
    "DESIGN.md 4/C06")

CHECKS["C16"] = ("bytes", "exploration",
    "structured byte / CBOR mutation with the oracle inside each target (rapid, quick) + native coverage-guided fuzzing (thorough)",
    "57 decode / verify entry points (CBOR decoding of transactions, all method bodies, descriptors, commitments, proofs, write logs, checkpoint metadata; runtime host frames; tree node and key decoders; proof "
    "verification; checkpoint chunk restore against a restore in progress; PCS quotes and collateral, IAS AVRs; descriptor verification functions, also in attacker-signed variants) receive generated mutations of "
    "valid encodings and hostile constants. Inside each target: no panic, bounded time and allocation (re-run 3x before it counts), decode->encode->decode consistency, depth/policy markers, and an identical "
    "result for a known-good input afterwards. The thorough tier adds native Go fuzzing (coverage instrumented) of 7 grouped targets. One accepted-but-inconsistent decoding (namespace in array form) was found, "
    "shown to halt the chain on the live multiplexer, and repaired.",
    "Inputs up to 64 KiB; time/memory limits are thresholds, not proofs. The live multiplexer's CheckTx/DeliverTx with arbitrary bytes is exercised by C10's hostile generator instead. Accepted mkvs nodes are additionally checked for well-formedness (label length vs declared bit length, bit access at the last position).",
    "DESIGN.md 3.3, 4/C16")

NOT_APPLICABLE = {
}


def repo_hook_commits():
    try:
        out = subprocess.run(["git", "-C", "/repo", "log", "--format=%h %s"], stdout=subprocess.PIPE, text=True).stdout
    except Exception:
        return []
    return [l.split()[0] for l in out.splitlines() if l.split(" ", 1)[1].startswith("verif hook")]


def main():
    props = [json.loads(l)["id"] for l in open(os.path.join(ROOT, "properties.jsonl"))]
    checks = []
    for pid in props:
        if pid not in CHECKS:
            continue
        eng, cat, tech, text, note, ref = CHECKS[pid]
        checks.append({
            "property_id": pid,
            "quick_cmd": "./check run %s --tier quick" % pid,
            "thorough_cmd": "./check run %s --tier thorough" % pid,
            "evidence_file": "/verif/evidence/%s.json" % pid,
            "replay_cmd_template": "./check replay {path}",
            "engine": eng,
            "level_claimed": {"category": cat, "text": text, "design_ref": ref},
            "level_note": note,
            "technique": tech,
        })
    na = [{"property_id": p, "reason": NOT_APPLICABLE.get(p, "check not built yet in this session (planned, see DESIGN.md section 8b); not claimed until it runs clean")}
          for p in props if p not in CHECKS]
    doc = {
        "version": 1,
        "setup_cmd": "./check setup",
        "hooks": {
            "guard": "verif",
            "enable": "go build tag: every harness test binary is built with `go test -c -tags verif` against /repo/go through a replace directive (see ./check)",
            "baseline_off_cmd": "cd /repo/go && go test -vet=off -count=1 -timeout 25m ./...",
            "source_commits": repo_hook_commits(),
            "add_only": True,
        },
        "engines": [
            {"name": "pure", "path": "harness/props", "serves_properties": [p for p in props if p in CHECKS and CHECKS[p][0] == "pure"],
             "kind_free_text": "rapid property tests calling exported (or verif-exported) pure functions directly"},
            {"name": "kv", "path": "harness/kv", "serves_properties": [p for p in props if p in CHECKS and CHECKS[p][0] == "kv"],
             "kind_free_text": "MKVS / NodeDB / checkpoint harness with reference map and independent reference root hash"},
            {"name": "chain", "path": "harness/chain", "serves_properties": [p for p in props if p in CHECKS and CHECKS[p][0] == "chain"],
             "kind_free_text": "real ABCI multiplexer with all consensus apps driven in-process by a generated consensus-engine model"},
            {"name": "bytes", "path": "harness/mut", "serves_properties": [p for p in props if p in CHECKS and CHECKS[p][0] == "bytes"],
             "kind_free_text": "structured byte/CBOR mutators and native fuzz targets"},
        ],
        "checks": checks,
        "not_applicable": na,
        "notes": "Driver: ./check (python3 stdlib). Exit 0 held / 1 VIOLATION / 2 inconclusive. Known findings: known_findings.json.",
    }
    json.dump(doc, open(os.path.join(ROOT, "MANIFEST.json"), "w"), indent=1)
    print("wrote MANIFEST.json with %d checks, %d not_applicable" % (len(checks), len(na)))


if __name__ == "__main__":
    main()
