#!/usr/bin/env python3
"""Run the checks against a property-PRESERVING change written by an independent sub-agent (false-alarm test).

usage: tools/benign_confirm.py <benign-worktree> <property-id> [<check-id> ...]

Steps (in a fresh scratch worktree of /repo HEAD, removed afterwards):
  1. apply out/patch.diff, `go build ./...` and `go build -tags verif ./...`
  2. run the existing tests of the touched packages with the change (must PASS)
  3. run `./check run <id>` (quick tier) with VERIF_REPO pointing at the patched worktree for the property's own check and
     any further check ids given: every one must exit 0 (an alarm here is a FALSE alarm to be investigated; exit 2 = the
     harness does not build / is inconclusive against the change)
  4. store patch.diff and meta.json (agent's + our results) in /verif/benign/<tag>/
"""
import hashlib
import json
import os
import shutil
import subprocess
import sys
import time

G = "/root/go/pkg/mod/golang.org/toolchain@v0.0.1-go1.26.3.linux-amd64/bin/go"
ENV = dict(os.environ, GOTOOLCHAIN="local", GOFLAGS="-mod=mod", GOPROXY="off", GOSUMDB="off")


def sh(cmd, cwd=None, env=None, timeout=3600):
    p = subprocess.run(cmd, shell=True, cwd=cwd, env=env or ENV, stdout=subprocess.PIPE, stderr=subprocess.STDOUT, text=True, timeout=timeout)
    return p.returncode, p.stdout


def main():
    src, pid = sys.argv[1], sys.argv[2]
    extra = sys.argv[3:]
    out = os.path.join(src, "out")
    meta = json.load(open(os.path.join(out, "meta.json")))
    tag = os.path.basename(src.rstrip("/")).replace("benign-", "")
    wt = "/tmp/bconfirm-%s" % tag
    sh("git -C /repo worktree remove --force %s" % wt)
    rc, o = sh("git -C /repo worktree add -q %s HEAD" % wt)
    assert rc == 0, o
    result = {"confirmed_at_repo_commit": sh("git -C /repo log --format=%h -1")[1].strip()}
    try:
        rc, o = sh("git -C %s apply %s" % (wt, os.path.join(out, "patch.diff")))
        result["patch_applies"] = rc == 0
        if rc != 0:
            result["error"] = o[-500:]
            return result
        rc, o = sh("cd %s/go && %s build ./... && %s build -tags verif ./..." % (wt, G, G))
        result["builds"] = rc == 0
        if rc != 0:
            result["error"] = o[-800:]
            return result
        rc, o = sh("git -C %s diff --name-only" % wt)
        result["files"] = o.split()
        dirs = sorted({"./" + os.path.dirname(f)[len("go/"):] for f in o.split() if f.startswith("go/") and f.endswith(".go")})
        tests = {}
        for d in dirs:
            rc, o = sh("cd %s/go && %s test -vet=off -count=1 %s/..." % (wt, G, d), timeout=3000)
            if rc != 0 and "TestCheckpointer" in o:  # timing-flaky under load: once more, alone
                rc, o = sh("cd %s/go && %s test -vet=off -count=1 %s/..." % (wt, G, d), timeout=3000)
            tests[d] = "pass" if rc == 0 else "FAIL: " + o[-400:]
        result["existing_tests_with_change"] = tests
        checks = {}
        for cid in [pid] + extra:
            t0 = time.time()
            env = dict(os.environ, VERIF_REPO=wt, VERIF_SEED=os.environ.get("VERIF_SEED", "1"))
            p = subprocess.run(["./check", "run", cid, "--tier", "quick"], cwd="/verif", env=env, stdout=subprocess.PIPE, stderr=subprocess.STDOUT, text=True)
            sigs = sorted({l.split("VIOL[")[1].split("]")[0] for l in p.stdout.splitlines() if "VIOL[" in l})
            checks[cid] = {"exit": p.returncode, "silent": p.returncode == 0, "signatures": sigs, "wall_s": round(time.time() - t0, 1),
                           "summary": [l[:300] for l in p.stdout.splitlines() if l.startswith("[check]")][-3:]}
            if p.returncode != 0:
                checks[cid]["output_tail"] = p.stdout[-3000:]
        result["checks"] = checks
        return result
    finally:
        dst = os.path.join("/verif/benign", tag)
        os.makedirs(dst, exist_ok=True)
        shutil.copy(os.path.join(out, "patch.diff"), os.path.join(dst, "patch.diff"))
        meta_out = dict(meta)
        meta_out["verified_by_maintainer"] = result
        json.dump(meta_out, open(os.path.join(dst, "meta.json"), "w"), indent=1)
        sh("git -C /repo worktree remove --force %s" % wt)
        shutil.rmtree("/verif/.work/harness-" + hashlib.sha256(os.path.realpath(wt).encode()).hexdigest()[:10], ignore_errors=True)
        print(json.dumps({k: v for k, v in result.items()}, indent=1)[:6000])


if __name__ == "__main__":
    main()
