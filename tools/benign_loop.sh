#!/bin/bash
# usage: benign_loop.sh <tag> ... (tag like C19m); sequential, waits for other loops
cd /verif
while pgrep -f "confirm_loop.sh|benign_loop_run" > /dev/null; do sleep 10; done
for tag in "$@"; do
  pid=${tag:0:3}
  if [ -d /tmp/benign-$tag/out ]; then
    python3 tools/benign_confirm.py /tmp/benign-$tag $pid > /root/benign-$tag.log 2>&1
    echo "$tag done rc=$?" >> /root/benign-progress.log
    git -C /repo worktree remove --force /tmp/benign-$tag >> /root/benign-progress.log 2>&1
  else
    echo "$tag: no out dir" >> /root/benign-progress.log
  fi
done
