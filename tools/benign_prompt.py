#!/usr/bin/env python3
"""Print the brief for an independent sub-agent that writes a property-PRESERVING change (false-alarm control):
tools/benign_prompt.py <property-id> <round-letter>. Nothing from /verif is given beyond the property record."""
import json, os, sys
ROOT = os.path.dirname(os.path.dirname(os.path.abspath(__file__)))
pid, letter = sys.argv[1], sys.argv[2]
prop = [json.loads(l) for l in open(os.path.join(ROOT, "properties.jsonl")) if json.loads(l)["id"] == pid][0]
wt = "/tmp/benign-%s%s" % (pid, letter)
G = "/root/go/pkg/mod/golang.org/toolchain@v0.0.1-go1.26.3.linux-amd64/bin/go"
print(f"""You are helping to evaluate a verification effort for the Go project oasisprotocol/oasis-core (a blockchain node: CometBFT ABCI
applications, a Merklized key-value store "mkvs" with two node-database backends, checkpoints, a runtime host layer, a stateless
light-client backed node, SGX/TDX quote verification, a runtime transaction pool). An automated verifier claims to decide the semantic
property below. Your job is the OPPOSITE of breaking it: write ONE realistic change in or near the property's code that KEEPS the
property true for every input, schedule and history, but changes as much as you reasonably can of what an OVER-FITTED verifier might
lean on. If the verifier raises an alarm on your change, that is a false alarm of the verifier.

THE PROPERTY ({pid}: {prop['title']})
{prop['statement']}
Quantified over: {(prop.get('quantifier') or {}).get('text','')}
Code anchors (files where the behaviour lives): {', '.join((prop.get('anchors') or {}).get('files', []))}

WHAT TO CHANGE (pick several that fit; one coherent patch a maintainer could accept, 50-250 changed lines)
- error texts, error wrapping (keep sentinel errors that callers compare with errors.Is), WHICH error wins for doubly invalid input,
  additional EARLY rejections of input that was rejected later anyway, log messages;
- order of things the property does not fix: events, validator updates, write-log entries, listed roots, map iteration made
  deterministic or the other way round, tie-breaking among equals, order of database writes inside one atomic batch;
- internal refactorings: helpers split / merged, caches that are invalidated correctly, pre-allocation, fewer or more internal
  reads, default capacities, retries, an extra internal consistency check that can never fire on correct state;
- timing: a handler that does slightly more or less work, an extra goroutine hand-off or channel buffer in a notification / push path,
  a context check in a long loop (which must not leave partial state behind);
- gas: the SAME total gas for every successful transaction, but charged in a different order or split into more charges, provided every
  charge happens BEFORE any state write it guards (a failed transaction must still change nothing but fee and nonce).
Do NOT change consensus-visible results (state roots, transaction result codes and data, gas used by successful transactions, validator
sets, committees, stored roots and their contents, accepted/rejected verdicts of verifiers for any input). Do NOT weaken any check.

YOUR SCRATCH WORKTREE
  git -C /repo worktree add {wt} HEAD
Work ONLY there (never touch /repo's working tree, never read or write anything under /verif). Do NOT use `git stash` (it is shared
between worktrees). No network. Toolchain and environment for every go command:
  export GOTOOLCHAIN=local GOFLAGS=-mod=mod GOPROXY=off GOSUMDB=off; G={G}
  cd {wt}/go && $G build ./... && $G build -tags verif ./... && $G test -vet=off -count=1 ./<touched package>/...
Both builds must succeed and the existing tests of every package you touched must pass.

DELIVERABLES (inside {wt}; leave the change applied, do not commit, do not remove the worktree)
1. {wt}/out/patch.diff = `git -C {wt} diff`
2. {wt}/out/meta.json with string fields "property" ("{pid}"), "summary" (what was changed, file by file), "what_observable_changed"
   (error texts / orders / timing / internal writes that differ now), "why_property_still_holds" (an argument per changed site),
   "files_changed" (list), "existing_tests_run" (list of commands and results).
Reply with a short summary.""")
