#!/bin/bash
# usage: clean_sweep.sh <seed> <check>...   runs checks on /repo sequentially, logs one line each
cd /verif
seed=$1; shift
for c in "$@"; do
  out=$(VERIF_SEED=$seed timeout 3000 ./check run $c 2>&1)
  rc=$?
  echo "seed=$seed $c rc=$rc $(echo "$out" | grep '^\[check\] C' | tail -1)" >> /root/clean-sweep.log
  if [ $rc -ne 0 ]; then echo "$out" | grep -v "rapid\] draw" | tail -30 > /root/clean-sweep-$c-seed$seed.fail.log; fi
done
echo "sweep seed=$seed done: $*" >> /root/clean-sweep.log
