#!/bin/bash
# usage: confirm_loop.sh <tag> ...   (tag like C01j); sequential
cd /verif
for tag in "$@"; do
  pid=${tag:0:3}
  if [ -d /tmp/seed-$tag/out ]; then
    python3 tools/seed_confirm.py /tmp/seed-$tag $pid > /root/confirm-$tag.log 2>&1
    echo "$tag done rc=$?" >> /root/confirm-progress.log
    git -C /repo worktree remove --force /tmp/seed-$tag >> /root/confirm-progress.log 2>&1
  else
    echo "$tag: no out dir" >> /root/confirm-progress.log
  fi
done
