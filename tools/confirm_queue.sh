#!/bin/bash
# waits until no other confirm loop runs, then processes the tags
while pgrep -f "confirm_loop.sh" > /dev/null; do sleep 10; done
exec "$(dirname "$0")/confirm_loop.sh" "$@"
