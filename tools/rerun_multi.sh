#!/bin/bash
# usage: rerun_multi.sh "<tag> <check>..." ...  sequentially; output /root/rerun-multi.log
cd /verif
while pgrep -f "confirm_loop.sh" > /dev/null; do sleep 10; done
for spec in "$@"; do
  tools/seed_rerun.sh $spec >> /root/rerun-multi.log 2>&1
done
echo "batch done: $*" >> /root/rerun-multi.log
