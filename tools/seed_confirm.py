#!/usr/bin/env python3
"""Confirm a seeded change produced by an independent sub-agent and run the checks against it.

usage: tools/seed_confirm.py <seed-worktree> <property-id> [<check-id> ...]

Steps (all in a fresh scratch worktree of /repo HEAD, removed afterwards):
  1. apply out/patch.diff, copy the untracked demonstration files, `go build ./...`
  2. run the demonstration with the change (must FAIL) and without it (must PASS)
  3. run the existing tests of the touched packages with the change (must PASS)
  4. run `./check run <id>` (quick tier) with VERIF_REPO pointing at the patched worktree for the
     property's own check and any further check ids given
  5. store patch.diff, the demonstration and meta.json (agent's + our results) in /verif/seeded/<id>/
"""
import json
import os
import shutil
import subprocess
import sys
import time

G = "/root/go/pkg/mod/golang.org/toolchain@v0.0.1-go1.26.3.linux-amd64/bin/go"
ENV = dict(os.environ, GOTOOLCHAIN="local", GOFLAGS="-mod=mod", GOPROXY="off", GOSUMDB="off")


def sh(cmd, cwd=None, env=None, timeout=3600):
    p = subprocess.run(cmd, shell=True, cwd=cwd, env=env or ENV, stdout=subprocess.PIPE, stderr=subprocess.STDOUT, text=True, timeout=timeout)
    return p.returncode, p.stdout


def main():
    seed_wt, pid = sys.argv[1], sys.argv[2]
    extra = sys.argv[3:]
    out = os.path.join(seed_wt, "out")
    meta = json.load(open(os.path.join(out, "meta.json")))
    tag = os.path.basename(seed_wt.rstrip("/")).replace("seed-", "")
    wt = "/tmp/confirm-%s" % tag
    sh("git -C /repo worktree remove --force %s" % wt)
    rc, o = sh("git -C /repo worktree add -q %s HEAD" % wt)
    assert rc == 0, o
    result = {"confirmed_at_repo_commit": sh("git -C /repo log --format=%h -1")[1].strip()}
    try:
        # demonstration files = untracked files in the agent's worktree (outside out/)
        rc, o = sh("git -C %s status --porcelain --untracked-files=all" % seed_wt)
        demos = [l[3:] for l in o.splitlines() if l.startswith("?? ") and not l[3:].startswith("out/") and l.endswith(".go")]
        result["demo_files"] = demos
        for d in demos:
            os.makedirs(os.path.dirname(os.path.join(wt, d)), exist_ok=True)
            shutil.copy(os.path.join(seed_wt, d), os.path.join(wt, d))
        demo_cmd = [l for l in open(os.path.join(out, "demo_cmd.txt")).read().strip().splitlines()
                    if l.strip() and not l.strip().startswith("#") and " test " in l][-1]
        demo_cmd = demo_cmd.replace(seed_wt, wt).replace("$G", G)
        if not demo_cmd.startswith("cd "):
            demo_cmd = "cd %s/go && %s" % (wt, demo_cmd)
        result["demo_cmd"] = demo_cmd
        # without the change
        rc0, o0 = sh(demo_cmd, cwd=os.path.join(wt, "go"))
        result["demo_without_change"] = "pass" if rc0 == 0 else "FAIL"
        rc, o = sh("git -C %s apply %s" % (wt, os.path.join(out, "patch.diff")))
        result["patch_applies"] = rc == 0
        if rc != 0:
            result["error"] = o[-500:]
            return result
        rc, o = sh("cd %s/go && %s build ./..." % (wt, G))
        result["builds"] = rc == 0
        rc1, o1 = sh(demo_cmd, cwd=os.path.join(wt, "go"))
        result["demo_with_change"] = "FAIL" if rc1 != 0 else "pass"
        result["demo_output_tail_with_change"] = o1[-600:]
        # existing tests of touched packages
        rc, o = sh("git -C %s diff --name-only" % wt)
        dirs = sorted({"./" + os.path.dirname(f)[len("go/"):] for f in o.split() if f.startswith("go/") and f.endswith(".go")})
        # move the demo away so that only EXISTING tests run
        for d in demos:
            os.rename(os.path.join(wt, d), os.path.join(wt, d) + ".off")
        tests = {}
        for d in dirs:
            rc, o = sh("cd %s/go && %s test -vet=off -count=1 %s/..." % (wt, G, d), timeout=3000)
            tests[d] = "pass" if rc == 0 else "FAIL: " + o[-300:]
        for d in demos:
            os.rename(os.path.join(wt, d) + ".off", os.path.join(wt, d))
        result["existing_tests_with_change"] = tests
        # our checks against the patched tree (demo files removed so they cannot interfere with builds)
        for d in demos:
            os.remove(os.path.join(wt, d))
        checks = {}
        for cid in [pid] + extra:
            t0 = time.time()
            env = dict(os.environ, VERIF_REPO=wt, VERIF_SEED=os.environ.get("VERIF_SEED", "1"))
            p = subprocess.run(["./check", "run", cid, "--tier", os.environ.get("SEED_TIER", "quick")], cwd="/verif", env=env, stdout=subprocess.PIPE, stderr=subprocess.STDOUT, text=True)
            lines = [l for l in p.stdout.splitlines() if l.startswith("VIOLATION") or l.startswith("[check] %s" % cid) or "VIOL[" in l]
            sigs = sorted({l.split("VIOL[")[1].split("]")[0] for l in p.stdout.splitlines() if "VIOL[" in l})
            checks[cid] = {"exit": p.returncode, "caught": p.returncode == 1, "signatures": sigs, "wall_s": round(time.time() - t0, 1),
                           "summary": [l[:300] for l in lines if l.startswith("[check]")][-1:]}
        result["checks"] = checks
        return result
    finally:
        dst = os.path.join("/verif/seeded", tag)
        os.makedirs(dst, exist_ok=True)
        shutil.copy(os.path.join(out, "patch.diff"), os.path.join(dst, "patch.diff"))
        for d in result.get("demo_files", []):
            shutil.copy(os.path.join(seed_wt, d), os.path.join(dst, os.path.basename(d)))
        meta_out = dict(meta)
        meta_out["demo_location"] = result.get("demo_files")
        meta_out["verified_by_maintainer"] = result
        json.dump(meta_out, open(os.path.join(dst, "meta.json"), "w"), indent=1)
        sh("git -C /repo worktree remove --force %s" % wt)
        import hashlib
        shutil.rmtree("/verif/.work/harness-" + hashlib.sha256(os.path.realpath(wt).encode()).hexdigest()[:10], ignore_errors=True)
        print(json.dumps({k: v for k, v in result.items() if k != "demo_output_tail_with_change"}, indent=1))


if __name__ == "__main__":
    main()
