#!/usr/bin/env python3
"""Print the brief handed to an independent seeding sub-agent: tools/seed_prompt.py <property-id> <round-letter>.
The brief holds ONLY the property text, the scratch worktree to use, the delivery format and one line per site that
earlier rounds already used for this property (so that a new mechanism is chosen). Nothing from /verif is given."""
import glob, json, os, sys
ROOT = os.path.dirname(os.path.dirname(os.path.abspath(__file__)))
pid, letter = sys.argv[1], sys.argv[2]
prop = [json.loads(l) for l in open(os.path.join(ROOT, "properties.jsonl")) if json.loads(l)["id"] == pid][0]
used = []
for d in sorted(glob.glob(os.path.join(ROOT, "seeded", pid + "*"))):
    try:
        m = json.load(open(os.path.join(d, "meta.json")))
    except Exception:
        continue
    s = (m.get("summary") or "").strip().replace("\n", " ")
    used.append("- " + s[:260])
wt = "/tmp/seed-%s%s" % (pid, letter)
G = "/root/go/pkg/mod/golang.org/toolchain@v0.0.1-go1.26.3.linux-amd64/bin/go"
print(f"""You are helping to evaluate a verification effort for the Go project oasisprotocol/oasis-core (a blockchain node: CometBFT ABCI
applications for staking/registry/roothash/scheduler/governance, a Merklized key-value store "mkvs" with two node-database
backends, checkpoints, a runtime host layer, a stateless light-client backed node, SGX/TDX quote verification, a runtime
transaction pool). Your job: write ONE realistic code change that BREAKS the semantic property below while the project still
compiles and its existing unit tests still pass, plus a demonstration that fails with your change and passes without it.

THE PROPERTY ({pid}: {prop['title']})
{prop['statement']}
Quantified over: {(prop.get('quantifier') or {}).get('text','')}
Code anchors (files where the behaviour lives): {', '.join((prop.get('anchors') or {}).get('files', []))}

YOUR SCRATCH WORKTREE
Create it yourself and work ONLY there (never touch /repo's working tree, never read or write anything under /verif):
  git -C /repo worktree add {wt} HEAD
The Go module is in {wt}/go. The sandbox has NO network. Use exactly this toolchain and environment for every go command:
  export GOTOOLCHAIN=local GOFLAGS=-mod=mod GOPROXY=off GOSUMDB=off; G={G}
  cd {wt}/go && $G build ./... && $G test -vet=off -count=1 ./<package>/...
(The default `go` on PATH is too old for this module; always use $G. First build takes a few minutes; other agents share the machine.)

WHAT KIND OF CHANGE
- It must look like something a developer could plausibly commit (an optimisation, a refactoring, a "simplification", a
  reordering, a cache, an off-by-one in a rarely used branch, a check moved a few lines), NOT an obviously malicious edit, and it
  must be small (typically 1-3 files, well under 100 changed lines).
- It must need something SPECIFIC to manifest: a particular interleaving, a crash or fault at a particular point, a multi-step
  sequence of operations, an unusual input or configuration, a second backend / rarely used API variant, or two cooperating sites
  that each look fine alone. A change that ordinary use or the existing tests expose at once is useless.
- It must genuinely violate the property AS STATED (read it clause by clause and pick a clause or quantifier element that is easy
  to overlook) - not merely change an error message, performance or logging.
- `$G build ./...` and `$G build -tags verif ./...` must succeed and the EXISTING tests of every package you touched must still
  pass with your change (run them; the demo file moved away or filtered out with -run).
- Earlier rounds already used the following sites/mechanisms for this property. Choose a DIFFERENT mechanism and preferably a
  different file/function:
{chr(10).join(used) if used else '- (none yet)'}

DELIVERABLES (all inside {wt})
1. The change itself applied to the worktree's tracked files (do not commit).
2. A demonstration: a NEW untracked Go test file named zz_seed_demo_test.go in the most suitable existing package directory,
   test function names starting with TestSeedDemo, that FAILS with your change and PASSES on the unmodified code. It must be
   deterministic (no wall-clock sleeps as oracle, no dependence on map order unless you loop enough to make it certain) and run
   in well under two minutes.
3. {wt}/out/patch.diff = `git -C {wt} diff` of the tracked files only (without the demo file).
4. {wt}/out/demo_cmd.txt = one line: the go test command (using $G, run from {wt}/go) that runs only your demonstration.
5. {wt}/out/meta.json with string fields: "property" ("{pid}"), "summary" (what was changed, file and function), "why_it_breaks",
   "needs_to_manifest" (exactly what has to come together), "files_changed" (list), "existing_tests_run" (list of commands and
   results), "demo_fails_with_change" (true), "demo_passes_without_change" (true; verify by reverting the patch with
   `git diff > /tmp/<tag>.patch && git apply -R /tmp/<tag>.patch` and re-applying it with `git apply`; do NOT use `git stash`, it is shared
   between all worktrees of the repository), and "side_findings": anything the UNMODIFIED code already does wrong with respect to the property
   that you noticed while reading (file, function, how to trigger) - or an empty string.
Before finishing: verify the demo passes without the change and fails with it, leave the worktree WITH the change applied,
and reply with a short summary (what, where, what it needs to manifest, and any side findings). Do not remove the worktree.""")
