#!/bin/bash
# usage: tools/seed_rerun.sh <seed-tag> <check-id>...  - applies /verif/seeded/<tag>/patch.diff to a fresh worktree of /repo HEAD and
# runs the quick tier of the given checks against it (expected: exit 1). Prints one line per check.
ROOT="$(cd "$(dirname "$0")/.." && pwd)"
cd "$ROOT"
tag=$1; shift
wt=/tmp/rerun-$tag
git -C /repo worktree remove --force $wt 2>/dev/null
git -C /repo worktree add -q $wt HEAD || exit 3
git -C $wt apply $ROOT/seeded/$tag/patch.diff || { echo "$tag: patch does not apply to HEAD"; git -C /repo worktree remove --force $wt; exit 3; }
for c in "$@"; do
  VERIF_REPO=$wt ./check run $c > /tmp/rerun-$tag-$c.log 2>&1
  echo "$tag $c exit=$? $(grep -o 'violations=[0-9]*' /tmp/rerun-$tag-$c.log | tail -1)"
  rm -f /tmp/rerun-$tag-$c.log
done
git -C /repo worktree remove --force $wt
